// Uniform adapters over the ten libcappuccino containers.
// apply()/observe()/scan() use only the public API; dump() is white-box (needs -fno-access-control).
#pragma once
#include "common.hpp"

#include <cappuccino/cappuccino.hpp>

#include <algorithm>
#include <map>
#include <optional>
#include <sstream>
#include <tuple>

namespace vf
{
namespace cap = cappuccino;

template<CK ck, cap::thread_safe ts>
struct CT;
template<cap::thread_safe ts>
struct CT<CK::lru, ts>
{
    using type = cap::lru_cache<Key, Val, ts>;
};
template<cap::thread_safe ts>
struct CT<CK::mru, ts>
{
    using type = cap::mru_cache<Key, Val, ts>;
};
template<cap::thread_safe ts>
struct CT<CK::fifo, ts>
{
    using type = cap::fifo_cache<Key, Val, ts>;
};
template<cap::thread_safe ts>
struct CT<CK::lfu, ts>
{
    using type = cap::lfu_cache<Key, Val, ts>;
};
template<cap::thread_safe ts>
struct CT<CK::lfuda, ts>
{
    using type = cap::lfuda_cache<Key, Val, ts>;
};
template<cap::thread_safe ts>
struct CT<CK::rr, ts>
{
    using type = cap::rr_cache<Key, Val, ts>;
};
template<cap::thread_safe ts>
struct CT<CK::tlru, ts>
{
    using type = cap::tlru_cache<Key, Val, ts>;
};
template<cap::thread_safe ts>
struct CT<CK::utlru, ts>
{
    using type = cap::utlru_cache<Key, Val, ts>;
};
template<cap::thread_safe ts>
struct CT<CK::ut_map, ts>
{
    using type = cap::ut_map<Key, Val, ts>;
};
template<cap::thread_safe ts>
struct CT<CK::ut_set, ts>
{
    using type = cap::ut_set<Key, ts>;
};

// Static facts about each container's public API.
struct Traits
{
    bool has_peek;       // find(k, peek)
    bool peek_is_bool;   // lfu/lfuda take bool
    bool has_uc;         // find_with_use_count
    bool has_clean;      // clean_expired_values
    bool has_dynage;     // dynamically_age
    bool has_update_ttl; // update_ttl
    bool has_clear;      // clear
    bool has_capacity;   // capacity()
    bool is_set;         // no values
    bool ttl_per_entry;  // tlru
    bool has_iter_forms; // fifo
    bool ttl_cache;      // tlru/utlru (expired entries may stay resident)
    bool ttl_map;        // ut_map/ut_set (purge before every op)
    bool uses_clock;     // reads steady_clock
};
constexpr Traits traits_of(CK c)
{
    switch (c)
    {
        case CK::lru:
        case CK::mru:
            return {true, false, false, false, false, false, false, true, false, false, false, false, false, false};
        case CK::fifo:
            return {false, false, false, false, false, false, false, true, false, false, true, false, false, false};
        case CK::rr:
            return {false, false, false, false, false, false, false, true, false, false, false, false, false, false};
        case CK::lfu:
            return {true, true, true, false, false, false, false, true, false, false, false, false, false, false};
        case CK::lfuda:
            return {true, true, true, false, true, false, false, true, false, false, false, false, false, true};
        case CK::tlru:
            return {true, false, false, true, false, false, false, true, false, true, false, true, false, true};
        case CK::utlru:
            return {true, false, false, true, false, true, true, true, false, false, false, true, false, true};
        case CK::ut_map:
            return {false, false, false, true, false, false, true, false, false, false, false, false, true, true};
        case CK::ut_set:
            return {false, false, false, true, false, false, false, false, true, false, false, false, true, true};
    }
    return {};
}

// rr_cache generator control: seeds whose first mt19937 output lies in the middle of each of
// RNGQ equal slices of the 32-bit generator range.
constexpr int RNGQ = 12;
inline const uint32_t* rng_seeds()
{
    static uint32_t seeds[RNGQ];
    static bool     init = false;
    if (!init)
    {
        bool have[RNGQ] = {};
        int  found      = 0;
        for (uint32_t s = 1; found < RNGQ; s++)
        {
            std::mt19937 m(s);
            uint64_t     x     = m();
            uint64_t     width = (1ull << 32) / RNGQ;
            int          q     = (int)(x / width);
            if (q >= RNGQ)
                continue;
            uint64_t off = x - (uint64_t)q * width;
            // keep well inside the slice so that the distribution's rejection zone is never hit
            if (off < width / 4 || off > 3 * width / 4)
                continue;
            if (!have[q])
            {
                have[q]  = true;
                seeds[q] = s;
                found++;
            }
        }
        init = true;
    }
    return seeds;
}

// Cross-instance warm-up: before anything is explored, another instance of the same container type
// with a different capacity is created, driven through an eviction and destroyed.  Any function-local
// static or other lazily built process-wide state that (wrongly) remembers the first instance's
// parameters is thereby primed with values that do not fit the explored instance.
template<class AD>
inline void warm_up_other_instance()
{
    Config g;
    g.cap     = 1;
    g.nkeys   = 2;
    g.ttl_ms  = 5;
    g.tick_ms = 5;
    auto saved = g_vs;
    {
        AD ad(g);
        for (int k = 1; k <= 2; k++)
        {
            Op o;
            o.k      = OpK::Insert;
            o.n      = 1;
            o.key[0] = k;
            o.wid[0] = 5000 + k;
            o.ttl[0] = 5;
            ad.apply(o);
        }
        Op f;
        f.k      = OpK::Find;
        f.n      = 1;
        f.key[0] = 2;
        ad.apply(f);
        Op e;
        e.k      = OpK::Erase;
        e.n      = 1;
        e.key[0] = 2;
        ad.apply(e);
    }
    g_vs = saved;
}

inline cap::allow to_allow(int a)
{
    return a == 1 ? cap::allow::insert : a == 2 ? cap::allow::update : cap::allow::insert_or_update;
}

struct Tlru3
{
    std::chrono::milliseconds ttl;
    Key                       key;
    Val                       val;
};

template<CK ck, cap::thread_safe ts>
struct Ad
{
    using C                    = typename CT<ck, ts>::type;
    static constexpr Traits T  = traits_of(ck);
    static constexpr CK     kind = ck;
    C                       c;
    Config                  cfg;

    static C make(const Config& g)
    {
        using ms = std::chrono::milliseconds;
        if constexpr (ck == CK::utlru)
            return C(ms(g.ttl_big_ms ? g.ttl_big_ms : (int64_t)g.ttl_ms), (size_t)g.cap, g.lf);
        else if constexpr (ck == CK::ut_map || ck == CK::ut_set)
            return C(ms(g.ttl_big_ms ? g.ttl_big_ms : (int64_t)g.ttl_ms));
        else if constexpr (ck == CK::lfuda)
            return C((size_t)g.cap, ms(g.tick_ms), g.ratio, g.lf);
        else
            return C((size_t)g.cap, g.lf);
    }
    // containers are neither copyable nor movable (std::mutex member): C++17 guaranteed elision
    explicit Ad(const Config& g) : c(make(g)), cfg(g) {}

    Obs observe()
    {
        Obs o;
        o.size  = (long)c.size();
        o.empty = c.empty();
        if constexpr (T.has_capacity)
            o.capacity = (long)c.capacity();
        return o;
    }

    auto pk(int peek)
    {
        if constexpr (T.peek_is_bool)
            return (bool)peek;
        else
            return peek ? cap::peek::yes : cap::peek::no;
    }

    // Side-effect free (as far as the property statements allow) lookup of every key.
    Scan scan()
    {
        Scan s;
        for (int k = 1; k <= cfg.nkeys; k++)
        {
            Key key{k};
            if constexpr (T.is_set)
            {
                s.e[k].present = c.find(key);
            }
            else if constexpr (T.has_uc)
            {
                auto r = c.find_with_use_count(key, true);
                if (r)
                {
                    s.e[k].present = true;
                    s.e[k].wid     = r->first.id();
                    s.e[k].uc      = (int)r->second;
                }
            }
            else if constexpr (T.has_peek)
            {
                auto r = c.find(key, pk(1));
                if (r)
                {
                    s.e[k].present = true;
                    s.e[k].wid     = r->id();
                }
            }
            else
            {
                auto r = c.find(key);
                if (r)
                {
                    s.e[k].present = true;
                    s.e[k].wid     = r->id();
                }
            }
        }
        return s;
    }

    void reseed(int q)
    {
#ifndef VF_BLACKBOX
        if constexpr (ck == CK::rr)
            if (q != 255) // 255: keep drawing from the current generator stream (twin of a range)
                c.m_mt.seed(rng_seeds()[q % RNGQ]);
#endif
        (void)q;
    }

    Result apply(const Op& o)
    {
        using ms = std::chrono::milliseconds;
        Result r;
        // a "span" op is a long range over keys 1..span (write ids wid[0]+i, one ttl)
        const int N   = o.span > 0 ? (int)o.span : (int)o.n;
        auto      KEY = [&](int i) { return o.span > 0 ? i + 1 : (int)o.key[i]; };
        auto      WID = [&](int i) { return o.span > 0 ? o.wid[0] + i : o.wid[i]; };
        auto      TTL = [&](int i) { return o.span > 0 ? (int)o.ttl[0] : (int)o.ttl[i]; };
        // long ranges report an aggregate: number of results, number found, order intact, checksum of ids
        auto      agg = [&](auto& out, auto present, auto idof) {
            long found = 0, sum = 0, inorder = 1, i = 0;
            for (auto& e : out)
            {
                if (e.first.v != KEY((int)i))
                    inorder = 0;
                if (present(e))
                {
                    found++;
                    sum = (sum * 31 + idof(e) + 7) % 1000003;
                }
                else
                    sum = (sum * 31 + 3) % 1000003;
                i++;
            }
            r.push((int)out.size());
            r.push((int)found);
            r.push((int)inorder);
            r.push((int)sum);
        };
        switch (o.k)
        {
            case OpK::Advance:
                g_now_ns += o.dt;
                break;
            case OpK::Insert: {
                reseed(o.rngq);
                bool ok;
                if constexpr (T.is_set)
                    ok = c.insert(Key{o.key[0]}, to_allow(o.allow));
                else if constexpr (T.ttl_per_entry)
                    ok = c.insert(ms(o.ttl_big ? o.ttl_big : (int64_t)o.ttl[0]), Key{o.key[0]}, Val(o.wid[0], o.key[0]), to_allow(o.allow));
                else
                    ok = c.insert(Key{o.key[0]}, Val(o.wid[0], o.key[0]), to_allow(o.allow));
                r.push(ok);
                break;
            }
            case OpK::InsertRange:
            case OpK::InsertIt: {
                reseed(o.rngq);
                size_t cnt;
                if constexpr (T.is_set)
                {
                    std::vector<Key> v;
                    for (int i = 0; i < N; i++)
                        v.push_back(Key{KEY(i)});
                    cnt = c.insert_range(v, to_allow(o.allow));
                }
                else if constexpr (T.ttl_per_entry)
                {
                    std::vector<Tlru3> v;
                    for (int i = 0; i < N; i++)
                        v.push_back(Tlru3{ms(TTL(i)), Key{KEY(i)}, Val(WID(i), KEY(i))});
                    cnt = c.insert_range(v, to_allow(o.allow));
                }
                else
                {
                    std::vector<std::pair<Key, Val>> v;
                    for (int i = 0; i < N; i++)
                        v.emplace_back(Key{KEY(i)}, Val(WID(i), KEY(i)));
                    if constexpr (T.has_iter_forms)
                    {
                        if (o.k == OpK::InsertIt)
                            cnt = c.insert(v.begin(), v.end(), to_allow(o.allow));
                        else
                            cnt = c.insert_range(v, to_allow(o.allow));
                    }
                    else
                        cnt = c.insert_range(v, to_allow(o.allow));
                }
                r.push((int)cnt);
                break;
            }
            case OpK::Erase:
                r.push(c.erase(Key{o.key[0]}));
                break;
            case OpK::EraseRange:
            case OpK::EraseIt: {
                std::vector<Key> v;
                for (int i = 0; i < N; i++)
                    v.push_back(Key{KEY(i)});
                size_t cnt;
                if constexpr (T.has_iter_forms)
                {
                    if (o.k == OpK::EraseIt)
                        cnt = c.erase(v.begin(), v.end());
                    else
                        cnt = c.erase_range(v);
                }
                else
                    cnt = c.erase_range(v);
                r.push((int)cnt);
                break;
            }
            case OpK::Find: {
                Key key{o.key[0]};
                if constexpr (T.is_set)
                {
                    bool f = c.find(key);
                    r.push(f);
                    r.push(-1);
                }
                else
                {
                    std::optional<Val> f;
                    if constexpr (T.has_peek)
                        f = c.find(key, pk(o.peek));
                    else
                        f = c.find(key);
                    r.push(f.has_value());
                    r.push(f ? f->id() : -1);
                }
                break;
            }
            case OpK::FindUC: {
                if constexpr (T.has_uc)
                {
                    auto f = c.find_with_use_count(Key{o.key[0]}, (bool)o.peek);
                    r.push(f.has_value());
                    r.push(f ? f->first.id() : -1);
                    r.push(f ? (int)f->second : -1);
                }
                break;
            }
            case OpK::FindRange:
            case OpK::FindIt: {
                std::vector<Key> v;
                for (int i = 0; i < N; i++)
                    v.push_back(Key{KEY(i)});
                if constexpr (T.is_set)
                {
                    auto out = c.find_range(v);
                    if (o.span > 0)
                    {
                        agg(out, [](auto& e) { return e.second; }, [](auto&) { return 0; });
                        break;
                    }
                    r.push((int)out.size());
                    for (auto& [k, b] : out)
                    {
                        r.push(k.v);
                        r.push(b);
                        r.push(-1);
                    }
                }
                else
                {
                    std::vector<std::pair<Key, std::optional<Val>>> out;
                    if constexpr (T.has_peek)
                        out = c.find_range(v, pk(o.peek));
                    else if constexpr (T.has_iter_forms)
                    {
                        if (o.k == OpK::FindIt) // fifo has no peek flag: it selects the 'distance' argument form
                            out = o.peek ? c.find(v.begin(), v.end()) : c.find(v.begin(), v.end(), v.size());
                        else
                            out = c.find_range(v);
                    }
                    else
                        out = c.find_range(v);
                    if (o.span > 0)
                    {
                        agg(out, [](auto& e) { return e.second.has_value(); }, [](auto& e) { return e.second->id(); });
                        break;
                    }
                    r.push((int)out.size());
                    for (auto& [k, ov] : out)
                    {
                        r.push(k.v);
                        r.push(ov.has_value());
                        r.push(ov ? ov->id() : -1);
                    }
                }
                break;
            }
            case OpK::FindRangeFill:
            case OpK::FindFillIt: {
                if constexpr (T.is_set)
                {
                    std::vector<std::pair<Key, bool>> v;
                    // pre-fill with the opposite polarity pattern so that "overwrites every slot" is visible
                    for (int i = 0; i < N; i++)
                        v.emplace_back(Key{KEY(i)}, (i % 2) == 0);
                    c.find_range_fill(v);
                    if (o.span > 0)
                    {
                        agg(v, [](auto& e) { return e.second; }, [](auto&) { return 0; });
                        break;
                    }
                    r.push((int)v.size());
                    for (auto& [k, b] : v)
                    {
                        r.push(k.v);
                        r.push(b);
                        r.push(-1);
                    }
                }
                else
                {
                    std::vector<std::pair<Key, std::optional<Val>>> v;
                    for (int i = 0; i < N; i++)
                    {
                        // even positions start empty, odd positions start with a junk value that
                        // must be overwritten (with the real value or with nullopt)
                        if (i % 2 == 0)
                            v.emplace_back(Key{KEY(i)}, std::nullopt);
                        else
                            v.emplace_back(Key{KEY(i)}, Val(-77, -77));
                    }
                    if constexpr (T.has_peek)
                        c.find_range_fill(v, pk(o.peek));
                    else if constexpr (T.has_iter_forms)
                    {
                        if (o.k == OpK::FindFillIt)
                            c.find_range_fill(v.begin(), v.end());
                        else
                            c.find_range_fill(v);
                    }
                    else
                        c.find_range_fill(v);
                    if (o.span > 0)
                    {
                        agg(v, [](auto& e) { return e.second.has_value(); }, [](auto& e) { return e.second->id(); });
                        break;
                    }
                    r.push((int)v.size());
                    for (auto& [k, ov] : v)
                    {
                        r.push(k.v);
                        r.push(ov.has_value());
                        r.push(ov ? ov->id() : -1);
                    }
                }
                break;
            }
            case OpK::Clean:
                if constexpr (T.has_clean)
                    r.push((int)c.clean_expired_values());
                break;
            case OpK::DynAge:
                if constexpr (T.has_dynage)
                    r.push((int)c.dynamically_age());
                break;
            case OpK::UpdateTtl:
                if constexpr (T.has_update_ttl)
                    c.update_ttl(ms(o.ttl_big ? o.ttl_big : (int64_t)o.ttl[0]));
                break;
            case OpK::Clear:
                if constexpr (T.has_clear)
                    c.clear();
                break;
            case OpK::Size:
                r.push((int)c.size());
                break;
            case OpK::Empty:
                r.push((int)c.empty());
                break;
            case OpK::Capacity:
                if constexpr (T.has_capacity)
                    r.push((int)c.capacity());
                break;
            default:
                break;
        }
        return r;
    }

    // -----------------------------------------------------------------------------------------
    // White-box canonical dump (address free).  Used only to merge states / compare twins.
    // -----------------------------------------------------------------------------------------
    struct TimeCanon
    {
        std::vector<int64_t> expired; // sorted distinct expired instants
        void                 add(std::chrono::steady_clock::time_point tp)
        {
            int64_t t = tp.time_since_epoch().count();
            if (t <= g_now_ns)
                expired.push_back(t);
        }
        void fin()
        {
            std::sort(expired.begin(), expired.end());
            expired.erase(std::unique(expired.begin(), expired.end()), expired.end());
        }
        std::string operator()(std::chrono::steady_clock::time_point tp) const
        {
            int64_t t = tp.time_since_epoch().count();
            if (t > g_now_ns)
                return "+" + std::to_string(t - g_now_ns);
            // Every comparison the code makes with an expired instant has the same outcome for all of
            // them (they are <= now, now only grows, and new deadlines are >= now); their mutual order
            // is carried by the position in the ttl structure, which is dumped separately.  Ranks among
            // expired instants would only distinguish "equal" from "earlier", which no code path can
            // observe - and would make a state differ from itself after the clock moved.
            return "x";
        }
    };

    template<class L, class It>
    static int pos_in(L& l, It it)
    {
        int i = 0;
        for (auto j = l.begin(); j != l.end(); ++j, ++i)
            if (j == it)
                return i;
        return -1;
    }
    template<class M, class It>
    static int key_of(M& m, It it)
    {
        for (auto j = m.begin(); j != m.end(); ++j)
            if (j == it)
                return j->first.v;
        return -1;
    }

    // White-box: the expiry instant the implementation itself recorded for every resident key
    // (-1 entries: not resident).  Used by the clocked concurrent check: an entry served at or after
    // the deadline the implementation stamped on it contradicts the implementation's own bookkeeping,
    // whatever instant inside the insert call one takes as "the time of the write".
    void stamped_deadlines(int64_t out[MAXK + 1])
    {
        for (int k = 0; k <= MAXK; k++)
            out[k] = -1;
#ifdef VF_BLACKBOX
        return;
#else
        if constexpr (ck == CK::tlru || ck == CK::utlru)
        {
            for (auto& kv : c.m_keyed_elements)
                if (kv.first.v >= 0 && kv.first.v <= MAXK && kv.second < c.m_elements.size())
                    out[kv.first.v] = c.m_elements[kv.second].m_expire_time.time_since_epoch().count();
        }
        else if constexpr (ck == CK::ut_map || ck == CK::ut_set)
        {
            for (auto& kv : c.m_keyed_elements)
                if (kv.first.v >= 0 && kv.first.v <= MAXK)
                    out[kv.first.v] = kv.second.m_ttl_position->m_expire_time.time_since_epoch().count();
        }
#endif
    }

    // VF_BLACKBOX: fallback build for a tree whose private members no longer match this adapter (a
    // refactoring): no white-box access at all; the engines then explore without state merging.
    static constexpr bool whitebox =
#ifdef VF_BLACKBOX
        false;
#else
        true;
#endif
#ifdef VF_BLACKBOX
    std::string dump() { return "?"; }
#else
    std::string dump()
    {
        std::ostringstream s;
        if constexpr (ck == CK::lru || ck == CK::mru || ck == CK::tlru || ck == CK::utlru)
        {
            auto& lst = [&]() -> std::list<size_t>& {
                if constexpr (ck == CK::mru)
                    return c.m_mru_list;
                else
                    return c.m_lru_list;
            }();
            auto end = [&]() {
                if constexpr (ck == CK::mru)
                    return c.m_mru_end;
                else
                    return c.m_lru_end;
            }();
            // Slot ids are arbitrary labels: the code only ever uses them to index m_elements, so its
            // behaviour is invariant under a consistent relabelling.  Rename slots in order of appearance
            // in the (complete) lru list; a slot id outside the list or repeated in it is printed raw
            // with a '!' so that corrupted states never merge with sound ones.
            std::vector<long> ren(c.m_elements.size(), -1);
            auto              rn = [&](size_t sl) -> std::string {
                if (sl < ren.size() && ren[sl] >= 0)
                    return std::to_string(ren[sl]);
                return "!" + std::to_string(sl);
            };
            s << "u" << c.m_used_size << " b" << c.m_keyed_elements.bucket_count() << " L[";
            std::vector<size_t> used;
            bool                inused = true;
            long                nextid = 0;
            for (auto it = lst.begin(); it != lst.end(); ++it)
            {
                if (it == end)
                {
                    s << "|";
                    inused = false;
                }
                if (*it < ren.size() && ren[*it] < 0)
                {
                    ren[*it] = nextid++;
                    s << ren[*it] << ",";
                }
                else
                    s << "!" << *it << ",";
                if (inused && *it < c.m_elements.size())
                    used.push_back(*it);
            }
            if (end == lst.end())
                s << "|";
            s << "] M{";
            std::map<int, size_t> km;
            for (auto& kv : c.m_keyed_elements)
                km[kv.first.v] = kv.second;
            for (auto& kv : km)
                s << kv.first << ">" << rn(kv.second) << ",";
            s << "}";
            TimeCanon tc;
            if constexpr (ck == CK::tlru || ck == CK::utlru)
            {
                for (auto sl : used)
                    tc.add(c.m_elements[sl].m_expire_time);
                if constexpr (ck == CK::tlru)
                    for (auto& kv : c.m_ttl_list)
                        tc.add(kv.first);
                tc.fin();
            }
            if constexpr (ck == CK::tlru)
            {
                s << " T[";
                for (auto& kv : c.m_ttl_list)
                    s << tc(kv.first) << ":" << rn(kv.second) << ",";
                s << "]";
            }
            if constexpr (ck == CK::utlru)
            {
                s << " ttl" << c.m_ttl.count() << " T[";
                for (auto v : c.m_ttl_list)
                    s << rn(v) << ",";
                s << "]";
            }
            // used slots in list order (= renamed id order)
            for (auto sl : used)
            {
                auto& e = c.m_elements[sl];
                s << " S" << rn(sl) << "(k" << key_of(c.m_keyed_elements, e.m_keyed_position);
                if constexpr (ck == CK::mru)
                    s << " l" << pos_in(lst, e.m_mru_position);
                else
                    s << " l" << pos_in(lst, e.m_lru_position);
                if constexpr (ck == CK::tlru || ck == CK::utlru)
                {
                    s << " t" << pos_in(c.m_ttl_list, e.m_ttl_position) << " e" << tc(e.m_expire_time);
                }
                s << ")";
            }
            // free slots: the order-list iterator they still hold.  The pinned code never reads it (it is
            // re-assigned on insert) and leaves it either never set or pointing at the slot's own node: those two
            // are printed alike (nothing).  Any other target is printed, so a changed implementation that relies on
            // stored iterators of free slots does not have its odd states merged with sound ones.  On the pinned
            // code only utlru's clear() produces such targets (it re-values the list nodes): +56% states on utlru.
            // Off (g_dump_free_iters) in the C18/C19 product searches, whose pair count it multiplies, and in E2.
            {
                bool infree = false;
                int  pos    = 0;
                for (auto it = lst.begin(); it != lst.end(); ++it, ++pos)
                {
                    if (it == end)
                        infree = true;
                    if (!infree || *it >= c.m_elements.size())
                        continue;
                    auto& e = c.m_elements[*it];
                    int   p;
                    auto  fit = [&]() {
                        if constexpr (ck == CK::mru)
                            return e.m_mru_position;
                        else
                            return e.m_lru_position;
                    }();
#ifdef _GLIBCXX_DEBUG
                    // (debug-mode iterators: a never-assigned one is singular and must not be compared)
                    if (fit._M_singular())
                        p = -1;
                    else
#endif
                        p = pos_in(lst, fit);
                    if (g_dump_free_iters && p != -1 && p != pos)
                        s << " F" << rn(*it) << "(l" << p << ")";
                }
            }
        }
        else if constexpr (ck == CK::rr)
        {
            s << "e" << c.m_open_list_end << " b" << c.m_keyed_elements.bucket_count() << " O[";
            for (size_t i = 0; i < c.m_open_list.size(); i++)
            {
                if (i == c.m_open_list_end)
                    s << "|";
                s << c.m_open_list[i] << ",";
            }
            s << "] M{";
            std::map<int, size_t> km;
            for (auto& kv : c.m_keyed_elements)
                km[kv.first.v] = kv.second;
            for (auto& kv : km)
                s << kv.first << ">" << kv.second << ",";
            s << "}";
            std::vector<size_t> used;
            for (size_t i = 0; i < c.m_open_list_end && i < c.m_open_list.size(); i++)
                if (c.m_open_list[i] < c.m_elements.size())
                    used.push_back(c.m_open_list[i]);
            std::sort(used.begin(), used.end());
            used.erase(std::unique(used.begin(), used.end()), used.end());
            for (auto sl : used)
            {
                auto& e = c.m_elements[sl];
                s << " S" << sl << "(k" << key_of(c.m_keyed_elements, e.m_keyed_position) << " o"
                  << e.m_open_list_position << ")";
            }
        }
        else if constexpr (ck == CK::fifo)
        {
            s << "u" << c.m_used_size << " b" << c.m_keyed_elements.bucket_count() << " F[";
            for (auto it = c.m_fifo_list.begin(); it != c.m_fifo_list.end(); ++it)
            {
                if (it->m_keyed_position.has_value())
                    s << "k" << key_of(c.m_keyed_elements, it->m_keyed_position.value()) << ",";
                else
                    s << "-,";
            }
            s << "] M{";
            std::map<int, int> km;
            for (auto& kv : c.m_keyed_elements)
                km[kv.first.v] = pos_in(c.m_fifo_list, kv.second);
            for (auto& kv : km)
                s << kv.first << ">" << kv.second << ",";
            s << "}";
        }
        else if constexpr (ck == CK::lfu || ck == CK::lfuda)
        {
            auto& lst = [&]() -> auto&
            {
                if constexpr (ck == CK::lfu)
                    return c.m_open_list;
                else
                    return c.m_dynamic_age_list;
            }
            ();
            s << "u" << c.m_used_size << " b" << c.m_keyed_elements.bucket_count() << " L[";
            bool inused = true;
            for (auto it = lst.begin(); it != lst.end(); ++it)
            {
                if (it == c.m_open_list_end)
                {
                    s << "|";
                    inused = false;
                }
                if (inused)
                {
                    s << "(k" << key_of(c.m_keyed_elements, it->m_keyed_position) << " f"
                      << pos_in(c.m_lfu_list, it->m_lfu_position);
                    if constexpr (ck == CK::lfuda)
                    {
                        int64_t age  = g_now_ns - it->m_dynamic_age.time_since_epoch().count();
                        int64_t tick = (int64_t)c.m_dynamic_age_tick.count() * MS;
                        if (age > tick)
                            age = tick + 1;
                        s << " a" << age;
                    }
                    s << ")";
                }
                else
                    s << ".";
            }
            if (c.m_open_list_end == lst.end())
                s << "|";
            s << "] M{";
            std::map<int, int> km;
            for (auto& kv : c.m_keyed_elements)
                km[kv.first.v] = pos_in(lst, kv.second);
            for (auto& kv : km)
                s << kv.first << ">" << kv.second << ",";
            s << "} F[";
            for (auto& kv : c.m_lfu_list)
                s << kv.first << ":" << pos_in(lst, kv.second) << ",";
            s << "]";
            if constexpr (ck == CK::lfuda)
                s << " tick" << c.m_dynamic_age_tick.count() << " r" << c.m_dynamic_age_ratio;
        }
        else if constexpr (ck == CK::ut_map || ck == CK::ut_set)
        {
            TimeCanon tc;
            for (auto& te : c.m_ttl_list)
                tc.add(te.m_expire_time);
            tc.fin();
            s << "ttl" << c.m_uniform_ttl.count() << " M{";
            for (auto& kv : c.m_keyed_elements)
                s << kv.first.v << ">" << pos_in(c.m_ttl_list, kv.second.m_ttl_position) << ",";
            s << "} T[";
            for (auto& te : c.m_ttl_list)
                s << tc(te.m_expire_time) << ":k" << key_of(c.m_keyed_elements, te.m_keyed_elements_position) << ",";
            s << "]";
        }
        return s.str();
    }
#endif
};

} // namespace vf
