// E1 "seqmc": explicit-state search over the real libcappuccino containers.
// One binary per container kind (-DVF_CK=<kind index>), both thread_safe modes inside.
#include "model.hpp"

#include <algorithm>
#include <csetjmp>
#include <csignal>
#include <ctime>
#include <map>
#include <random>
#include <set>
#include <unistd.h>
#include <unordered_map>
#include <unordered_set>

#ifndef VF_CK
#error "compile with -DVF_CK=<container kind index>"
#endif

namespace vf
{
thread_local int64_t  g_now_ns = BASE_NS;
int                   g_hash_mode = 0;
int                   g_val_eq_mode = 0;
thread_local ValStats g_vs;
} // namespace vf

// Link-time replacement of the steady clock (libstdc++ keeps now() out of line).
namespace std
{
namespace chrono
{
inline namespace _V2
{
steady_clock::time_point steady_clock::now() noexcept
{
    return time_point(nanoseconds(vf::g_now_ns));
}
} // namespace _V2
} // namespace chrono
} // namespace std

// Link-time replacement of the entropy source: every std::random_device in the process returns the same
// value, so rr_cache's self-seeded generator is deterministic even when the harness cannot reach into
// the cache to reseed it (black-box fallback build).  The white-box build reseeds per call anyway.
namespace std
{
unsigned int random_device::_M_getval()
{
    return 20240229u;
}
} // namespace std

using namespace vf;

static double wall()
{
    timespec t;
    clock_gettime(CLOCK_MONOTONIC, &t);
    return t.tv_sec + t.tv_nsec * 1e-9;
}

static std::string jesc(const std::string& s)
{
    std::string o;
    for (char c : s)
    {
        if (c == '"' || c == '\\')
        {
            o += '\\';
            o += c;
        }
        else if (c == '\n')
            o += "\\n";
        else
            o += c;
    }
    return o;
}

struct Args
{
    Config      cfg;
    Knobs       kn;
    int         prop{1};
    std::string mode{"graph"};
    std::vector<int> ttlset{0, 1, 2};
    int         rangelen{2};
    int         devs{0};
    long        sweep_budget{20000};
    long        max_states{2000000};
    double      deadline_s{600};
    std::string replay_dir{"/verif/replays"};
    std::string replay_file;
    int         rngq_all{0};     // rr: branch every evicting single insert over all quantiles
    int         adv{1};          // include advance(1ms)
    int         range_stride{1}; // use every n-th range op (1 = all)
    int         product_depth{1};
    long        max_pairs{300000};
    int         verbose{0};
    int         noprune{0}; // keep exploring behind foreign deviations (C08)
};

// current history for crash reports
static std::vector<Op> g_cur_hist;
static Args*           g_args = nullptr;
static const char*     g_ckname = "";
static const char*     g_replay_engine = "seqmc";
static const Config*   g_cur_cfg = nullptr; // configuration of the execution in progress (crash reports)

static std::string write_replay(const Args& a, const std::vector<Op>& hist, const std::string& props, const std::string& clause)
{
    std::string body;
    char        b[512];
    snprintf(
        b,
        sizeof b,
        "engine %s\ncontainer %s\ncfg %d %d %d %d %g %d %d %g %d\nprops %s\nclause %s\n",
        g_replay_engine,
        g_ckname,
        a.cfg.cap,
        a.cfg.nkeys,
        a.cfg.ts,
        a.cfg.hash,
        a.cfg.lf,
        a.cfg.ttl_ms,
        a.cfg.tick_ms,
        a.cfg.ratio,
        a.cfg.valeq,
        props.c_str(),
        clause.c_str());
    body += b;
    for (auto& o : hist)
        body += "op " + op_ser(o) + " # " + op_str(o) + "\n";
    H128 h = hash128(body);
    snprintf(b, sizeof b, "%s/%s-%s-%016llx.replay", a.replay_dir.c_str(), props.c_str(), g_ckname, (unsigned long long)h.a);
    FILE* f = fopen(b, "w");
    if (f)
    {
        fputs(body.c_str(), f);
        fclose(f);
    }
    return b;
}

static void crash_report(const char* why)
{
    // fatal sanitizer report / abort / hang while executing g_cur_hist: memory-safety violation
    if (!g_args)
        _exit(3);
    Args ra = *g_args;
    if (g_cur_cfg)
        ra.cfg = *g_cur_cfg;
    std::string p = write_replay(ra, g_cur_hist, "C08", why);
    char        b[1024];
    int         n = snprintf(
        b,
        sizeof b,
        "\nCRASH {\"props\":\"C08\",\"clause\":\"%s\",\"replay\":\"%s\",\"depth\":%zu}\n",
        why,
        p.c_str(),
        g_cur_hist.size());
    (void)!write(1, b, n);
}
// Crash containment (plain flavour): a fatal signal or abort raised while a history executes jumps
// back into exec(); the transition is recorded as a memory-safety failure and the search goes on, so a
// crash in one corner of a broken tree does not hide what the property under check does elsewhere.
static sigjmp_buf            g_jmp;
static volatile sig_atomic_t g_in_exec = 0;
static volatile sig_atomic_t g_crash_sig = 0;
static long                  g_contained = 0;
static volatile sig_atomic_t g_confirmed_hangs = 0; // hangs that survived a second attempt with a 30 s limit
static int                   g_watchdog_s = 3;
static void on_signal(int sig)
{
    if (g_in_exec && g_contained < 1000000 && g_confirmed_hangs <= 3)
    {
        g_in_exec   = 0;
        g_crash_sig = sig;
        g_contained++;
        siglongjmp(g_jmp, 1);
    }
    static volatile sig_atomic_t in = 0;
    if (in)
        _exit(4);
    in = 1;
    crash_report(sig == SIGALRM ? "hang (no progress within the watchdog limit; self-deadlock?)"
                                : sig == SIGABRT ? "abort (checked-iterator / assertion failure)" : "fatal signal");
    _exit(2);
}
extern "C" void __sanitizer_set_death_callback(void (*)(void)) __attribute__((weak));
static void     on_san_death()
{
    static int in = 0;
    if (in)
        return;
    in = 1;
    crash_report("sanitizer report (AddressSanitizer/UBSan)");
}

// -------------------------------------------------------------------------------------------------
template<class A>
struct Engine
{
    static constexpr CK     ck = A::kind;
    static constexpr Traits T  = traits_of(ck);
    using SP                   = Spec<ck>;

    Args&  a;
    Config cfg;
    PM     report;

    struct Node
    {
        int parent;
        Op  op;
    };
    struct St
    {
        int   node;
        Model m;
    };
    std::vector<Node>                  nodes;
    std::unordered_set<H128, H128H>    seen;
    std::unordered_map<uint64_t, int>  seen_depth; // only filled up to sweep depth
    long                               transitions{0}, states{0}, foreign{0}, unattr{0}, execs{0}, adopted{0}, crashes_contained{0}, nondet{0};
    int                                max_depth{0};
    bool                               fixpoint{false}, capped{false};
    double                             t0;
    std::set<std::string>              outcomes; // distinct (op kind, result) pairs
    std::vector<std::string>           samples;
    struct VRec
    {
        std::string props, clause, replay, hist;
    };
    std::vector<VRec> viols;
    std::set<std::string> viol_keys;
    long  sweep_seqs{0};
    int   sweep_depth{0};
    long  c15_groups{0};
    bool  whitebox{A::whitebox};
    bool  keep_states{false};
    bool  bb_keep{false};
    std::vector<St> all_states;

    explicit Engine(Args& aa) : a(aa), cfg(aa.cfg), report(P(aa.prop)) {}

    struct Tr
    {
        Result      r;
        Obs         ob;
        Scan        sc;
        std::string dump;
        bool        val_ok{true};
        bool        crashed{false};
        bool        hang{false};
        std::string val_msg;
    };

    void hist_of(int node, std::vector<Op>& out)
    {
        out.clear();
        for (int n = node; n > 0; n = nodes[n].parent)
            out.push_back(nodes[n].op);
        std::reverse(out.begin(), out.end());
    }

    Tr exec(const std::vector<Op>& hist, const Op* op) { return exec_cfg(cfg, hist, op); }

    static bool& containment()
    {
        static bool on = false;
        return on;
    }
    Tr exec_cfg(const Config& xcfg, const std::vector<Op>& hist, const Op* op)
    {
        Tr t = exec_once(xcfg, hist, op);
        if (t.crashed && t.hang)
        {
            // A deterministic history that misses the 3 s watchdog is run once more, alone, with a 30 s
            // limit before anything is said about it (a stalled machine must not look like a hang).
            g_watchdog_s = 30;
            Tr t2        = exec_once(xcfg, hist, op);
            g_watchdog_s = 3;
            if (t2.crashed && t2.hang)
                g_confirmed_hangs = g_confirmed_hangs + 1;
            return t2;
        }
        return t;
    }
    Tr exec_once(const Config& xcfg, const std::vector<Op>& hist, const Op* op)
    {
        Tr t;
        g_cur_hist = hist;
        if (op)
            g_cur_hist.push_back(*op);
        alarm(containment() ? g_watchdog_s : 120); // (sanitizer flavour: not contained, so no retry - be generous)
        g_now_ns        = BASE_NS;
        ValStats before = g_vs;
        if (containment())
        {
            if (sigsetjmp(g_jmp, 1) != 0)
            {
                // came back from a fatal signal: abandon (leak) the container of that execution
                sigset_t ss;
                sigemptyset(&ss);
                sigaddset(&ss, SIGSEGV);
                sigaddset(&ss, SIGABRT);
                sigaddset(&ss, SIGALRM);
                sigaddset(&ss, SIGBUS);
                sigprocmask(SIG_UNBLOCK, &ss, nullptr);
                g_vs      = before;
                t         = Tr();
                t.val_ok  = false;
                t.crashed = true;
                t.hang    = g_crash_sig == SIGALRM;
                t.val_msg = g_crash_sig == SIGALRM ? "the call sequence hangs (watchdog)" : g_crash_sig == SIGABRT ? "the call sequence aborts (assertion / checked iterator)" : "the call sequence dies with a fatal signal (invalid memory access)";
                execs++;
                return t;
            }
            g_in_exec = 1;
        }
        {
            A ad(xcfg);
            for (auto& o : hist)
                ad.apply(o);
            if (op)
                t.r = ad.apply(*op);
            t.ob = ad.observe();
            t.dump = ad.dump();
            t.sc   = ad.scan();
        }
        g_in_exec = 0;
        execs++;
        if (g_vs.live != before.live || g_vs.bad_destroy != before.bad_destroy || g_vs.bad_use != before.bad_use)
        {
            char b[200];
            snprintf(
                b,
                sizeof b,
                "value instances: %ld still alive after the container was destroyed, %ld destroyed while not alive, %ld "
                "used while not alive",
                g_vs.live - before.live,
                g_vs.bad_destroy - before.bad_destroy,
                g_vs.bad_use - before.bad_use);
            t.val_ok  = false;
            t.val_msg = b;
            g_vs      = before;
        }
        return t;
    }

    std::string hist_str(const std::vector<Op>& h)
    {
        std::string s;
        for (size_t i = 0; i < h.size(); i++)
        {
            if (i)
                s += "; ";
            s += op_str(h[i]);
        }
        return s;
    }

    void record_violation(const std::vector<Op>& hist, const Op& op, PM props, const std::string& clause)
    {
        std::vector<Op> h = hist;
        h.push_back(op);
        // replay twice before reporting: must be deterministic
        Tr t1 = exec(hist, &op), t2 = exec(hist, &op);
        if (!t1.crashed && !t2.crashed && (t1.r != t2.r || t1.dump != t2.dump))
        {
            // The library's behaviour on this history is not a function of the history (it depends on
            // uninitialised or freed memory): no verdict on a functional property can be trusted here.
            nondet++;
            if (report & P(8))
                props = P(8);
            else
                return;
        }
        std::string key = pm_str(props & report) + "|" + clause.substr(0, 40);
        if (viol_keys.count(key) && viols.size() >= 3)
            return; // keep the report short: first (shortest) witness per clause
        if (viols.size() >= 20)
            return;
        viol_keys.insert(key);
        VRec v;
        v.props  = pm_str(props & report);
        v.clause = clause;
        v.replay = write_replay(a, h, v.props, clause);
        v.hist   = hist_str(h);
        viols.push_back(v);
    }

    // ---------------------------------------------------------------------------------------
    // Alphabet
    // ---------------------------------------------------------------------------------------
    std::vector<Op> base_alpha; // state independent part (without wids)

    void gen_keylists(int len, std::vector<std::vector<int>>& out)
    {
        std::vector<int> cur;
        std::function<void()> rec = [&]() {
            if ((int)cur.size() == len)
            {
                out.push_back(cur);
                return;
            }
            for (int k = 1; k <= cfg.nkeys; k++)
            {
                cur.push_back(k);
                rec();
                cur.pop_back();
            }
        };
        rec();
    }

    void build_alphabet()
    {
        auto add = [&](Op o) { base_alpha.push_back(o); };
        std::vector<int> ttls = T.ttl_per_entry ? a.ttlset : std::vector<int>{0};
        // singles, simplest first
        for (int k = 1; k <= cfg.nkeys; k++)
            for (int al : {3, 1, 2})
                for (int t : ttls)
                {
                    Op o;
                    o.k      = OpK::Insert;
                    o.n      = 1;
                    o.key[0] = k;
                    o.allow  = al;
                    o.ttl[0] = t;
                    add(o);
                }
        for (int k = 1; k <= cfg.nkeys; k++)
            for (int pk = 0; pk <= (T.has_peek ? 1 : 0); pk++)
            {
                Op o;
                o.k      = OpK::Find;
                o.n      = 1;
                o.key[0] = k;
                o.peek   = pk;
                add(o);
                if (T.has_uc)
                {
                    o.k = OpK::FindUC;
                    add(o);
                }
            }
        for (int k = 1; k <= cfg.nkeys; k++)
        {
            Op o;
            o.k      = OpK::Erase;
            o.n      = 1;
            o.key[0] = k;
            add(o);
        }
        if (T.has_clean)
        {
            Op o;
            o.k = OpK::Clean;
            add(o);
        }
        if (T.has_dynage)
        {
            Op o;
            o.k = OpK::DynAge;
            add(o);
        }
        if (T.has_update_ttl)
            for (int t : a.ttlset)
            {
                Op o;
                o.k      = OpK::UpdateTtl;
                o.ttl[0] = t;
                add(o);
            }
        if (T.has_clear)
        {
            Op o;
            o.k = OpK::Clear;
            add(o);
        }
        if (T.uses_clock && a.adv)
        {
            Op o;
            o.k  = OpK::Advance;
            o.dt = MS;
            add(o);
        }
        // ranges: every key list of length 0..rangelen (prefixes first)
        for (int len = 0; len <= a.rangelen; len++)
        {
            std::vector<std::vector<int>> kls;
            gen_keylists(len, kls);
            for (auto& kl : kls)
            {
                auto setkeys = [&](Op& o) {
                    o.n = len;
                    for (int i = 0; i < len; i++)
                        o.key[i] = kl[i];
                };
                std::vector<OpK> ins{OpK::InsertRange}, ers{OpK::EraseRange}, fnd{OpK::FindRange, OpK::FindRangeFill};
                if (T.has_iter_forms)
                {
                    ins.push_back(OpK::InsertIt);
                    ers.push_back(OpK::EraseIt);
                    fnd.push_back(OpK::FindIt);
                    fnd.push_back(OpK::FindFillIt);
                }
                // ttl patterns for tlru ranges: uniform t, ascending and descending through the ttl set
                std::vector<std::vector<int>> tpats;
                if (T.ttl_per_entry && len > 0)
                {
                    for (int t : a.ttlset)
                        tpats.push_back(std::vector<int>(len, t));
                    if (len >= 2)
                    {
                        std::vector<int> asc, desc;
                        int              ns = (int)a.ttlset.size();
                        for (int i = 0; i < len; i++)
                        {
                            asc.push_back(a.ttlset[std::min(i + 1, ns - 1)]);
                            desc.push_back(a.ttlset[std::max(ns - 1 - i, 0)]);
                        }
                        // keep prefix closure: prefix of asc/desc of length len is asc/desc of length len-1,
                        // which for len-1 == 1 is a uniform pattern present above when the value is in the set
                        tpats.push_back(asc);
                        tpats.push_back(desc);
                    }
                }
                else
                    tpats.push_back(std::vector<int>(len, 0));
                for (OpK kk : ins)
                    for (int al : {3, 1, 2})
                        for (auto& tp : tpats)
                        {
                            Op o;
                            o.k     = kk;
                            o.allow = al;
                            setkeys(o);
                            for (int i = 0; i < len; i++)
                                o.ttl[i] = tp[i];
                            add(o);
                        }
                for (OpK kk : fnd)
                    for (int pk = 0; pk <= ((T.has_peek || kk == OpK::FindIt) ? 1 : 0); pk++)
                    {
                        Op o;
                        o.k    = kk;
                        o.peek = pk;
                        setkeys(o);
                        add(o);
                    }
                for (OpK kk : ers)
                {
                    Op o;
                    o.k = kk;
                    setkeys(o);
                    add(o);
                }
            }
        }
    }

    // key identifying an op up to (but excluding) its last element -- to find the prefix range
    static std::string prefix_key(const Op& o, int n)
    {
        char        b[96];
        std::string s;
        snprintf(b, sizeof b, "%d/%d/%d/%d/%d:", (int)o.k, n, o.allow, o.peek, o.rngq);
        s = b;
        for (int i = 0; i < n; i++)
        {
            snprintf(b, sizeof b, "%d.%d,", o.key[i], o.ttl[i]);
            s += b;
        }
        return s;
    }

    // Is the op offered in this model state?  (environment restrictions keeping the space finite)
    bool enabled(const Model& m, const Op& o)
    {

        if constexpr (SP::is_lfu)
        {
            // use-count cap: no touching access/update of an entry that would exceed cmax
            int add[MAXK + 1] = {};
            if (is_insert(o.k) && (o.allow & 2))
                for (int i = 0; i < o.n; i++)
                    add[o.key[i]]++;
            if (is_find(o.k) && !o.peek)
                for (int i = 0; i < o.n; i++)
                    add[o.key[i]]++;
            for (int k = 1; k <= cfg.nkeys; k++)
                if (add[k] && m.e[k].present && m.e[k].uses + add[k] > a.kn.cmax)
                    return false;
        }
        return true;
    }

    // environment expansion of one alphabet op in a model state (rr quantiles, clock deviations)
    // rr, C15: an insert_range of distinct keys, none of them live, that takes the cache from non-full to one
    // element over capacity (so the last element causes the only eviction of the call)
    bool c15_one_eviction_range(const Model& m, const Op& o) const
    {
        if (o.k != OpK::InsertRange || o.n < 2 || (long)m.obs.size + o.n != (long)cfg.cap + 1)
            return false;
        for (int j = 0; j < o.n; j++)
        {
            if (SP::live(m, o.key[j]) || m.e[o.key[j]].present)
                return false;
            for (int i = 0; i < j; i++)
                if (o.key[i] == o.key[j])
                    return false;
        }
        return true;
    }
    void expand(const Model& m, int depth, std::vector<Op>& out)
    {
        out.clear();
        for (size_t i = 0; i < base_alpha.size(); i++)
        {
            Op o = base_alpha[i];
            if (is_range(o.k) && a.range_stride > 1 && o.n >= 2 && (i % a.range_stride) != 0)
                continue;
            if (!enabled(m, o))
                continue;
            for (int j = 0; j < o.n; j++)
                o.wid[j] = depth * 4 + j + 1;
            if (ck == CK::rr && o.k == OpK::InsertRange && (o.allow & 1) && a.rngq_all && m.obs.size < cfg.cap && c15_one_eviction_range(m, o))
            {
                // a range of new keys that starts on a non-full cache and overflows it by exactly one: the
                // single eviction happens inside the range call - all quantiles, aggregated like single inserts
                for (int q = 0; q < RNGQ; q++)
                {
                    o.rngq = q;
                    out.push_back(o);
                }
                continue;
            }
            if (ck == CK::rr && is_insert(o.k) && (o.allow & 1) && m.obs.size >= cfg.cap)
            {
                bool anynew = false;
                for (int j = 0; j < o.n; j++)
                    anynew |= !SP::live(m, o.key[j]);
                if (anynew)
                {
                    if (o.k == OpK::Insert && a.rngq_all)
                    {
                        for (int q = 0; q < RNGQ; q++)
                        {
                            o.rngq = q;
                            out.push_back(o);
                        }
                        continue;
                    }
                    else if (o.k == OpK::Insert)
                    {
                        for (int q : {0, 5, 11})
                        {
                            o.rngq = q;
                            out.push_back(o);
                        }
                        continue;
                    }
                    else
                    {
                        for (int q : {0, 7})
                        {
                            o.rngq = q;
                            out.push_back(o);
                        }
                        continue;
                    }
                }
            }
            out.push_back(o);
        }
        // clock moves relative to model boundaries
        if (T.uses_clock && a.adv)
        {
            std::set<int64_t> bounds;
            for (int k = 1; k <= cfg.nkeys; k++)
            {
                const ME& e = m.e[k];
                if (!e.present)
                    continue;
                if (SP::has_ttl && e.deadline > m.now && e.deadline < INF_NS)
                    bounds.insert(e.deadline);
                if (ck == CK::lfuda)
                {
                    int64_t b = e.stamp + (int64_t)cfg.tick_ms * MS;
                    if (b >= m.now)
                        bounds.insert(b);
                }
            }
            if (!bounds.empty())
            {
                int64_t b = *bounds.begin();
                std::set<int64_t> dts;
                if (b - m.now > 0 && (b - m.now) != MS)
                    dts.insert(b - m.now); // jump exactly onto the boundary (free)
                for (int64_t dt : dts)
                {
                    Op o;
                    o.k  = OpK::Advance;
                    o.dt = dt;
                    out.push_back(o);
                }
                if (m.devs < a.devs)
                {
                    for (int64_t dt : {b - m.now - 1, b - m.now + 1})
                        if (dt > 0)
                        {
                            Op o;
                            o.k   = OpK::Advance;
                            o.dt  = dt;
                            o.dev = 1;
                            out.push_back(o);
                        }
                }
            }
        }
    }

    // ---------------------------------------------------------------------------------------
    // Process all ops from one state.  cb(op, trans, post_model, ok) is called for each.
    // ---------------------------------------------------------------------------------------
    struct Succ
    {
        Op          op;
        Model       m;
        std::string key;
    };

    void expand_state(const std::vector<Op>& hist, const Model& m, int depth, std::vector<Succ>& succ)
    {
        succ.clear();
        std::vector<Op> ops;
        expand(m, depth, ops);
        // prefix cache for ranges: post model + result after the range made of the first n-1 elements
        std::unordered_map<std::string, std::pair<Model, Result>> pc;
        std::unordered_set<std::string>                           pbad;
        // C15 aggregation: victims per (insert key) over the quantile branches
        struct C15G
        {
            std::map<int, int> victims;
            std::vector<int>   residents;
            int                n{0};
            Op                 op;
        };
        std::map<std::string, C15G> c15;
        std::vector<Viol>                 vs;
        for (auto& op : ops)
        {
            Tr t = exec(hist, &op);
            transitions++;
            Model        base = m;
            const Result* pr  = nullptr;
            bool          skip = false;
            if (is_range(op.k) && op.n >= 2)
            {
                std::string pk = prefix_key(op, op.n - 1);
                auto        it = pc.find(pk);
                if (it == pc.end() && ck == CK::rr && op.rngq != 0 && m.obs.size < cfg.cap && c15_one_eviction_range(m, op))
                {
                    // the prefix of such a range evicts nothing, so its outcome does not depend on the quantile
                    Op p0   = op;
                    p0.rngq = 0;
                    it      = pc.find(prefix_key(p0, op.n - 1));
                }
                if (it == pc.end())
                {
                    // prefix was pruned (violation there) or not in the alphabet: do not judge this op
                    skip = true;
                }
                else
                {
                    base = it->second.first;
                    pr   = &it->second.second;
                }
            }
            if (skip)
                continue;
            vs.clear();
            Model post = base;
            if (t.crashed)
            {
                crashes_contained++;
                if (report & P(8))
                    record_violation(hist, op, P(8), t.val_msg);
                else
                    foreign++;
                continue;
            }
            a.kn.depth = depth;
            SP::step(post, cfg, a.kn, op, t.r, pr, t.ob, t.sc, vs);
            if (!t.val_ok)
                vs.push_back(Viol{P(8), t.val_msg});
            // C09, "a rejected insert leaves the expiry unchanged": confirm differentially - the same history
            // without the rejected insert(s) on that key must show a different fate for the key at this clock
            // step, otherwise the rejected insert is not the cause and the C09 tag is dropped.
            for (auto& v : vs)
                if (v.rejkey > 0 && (report & P(9)))
                {
                    uint64_t        mask = base.e[v.rejkey].rejmask;
                    std::vector<Op> h2;
                    for (size_t i = 0; i < hist.size(); i++)
                        if (!(i < 64 && ((mask >> i) & 1)))
                            h2.push_back(hist[i]);
                    Tr t2 = exec(h2, &op);
                    if (t2.crashed || t2.sc.e[v.rejkey].present == t.sc.e[v.rejkey].present)
                        v.props &= ~P(9);
                }
            // ... and "the update did not restart the TTL": the same history with that update replaced by an
            // erase + fresh insert must show a different fate for the key, otherwise the deviation is not
            // specific to the update (e.g. every deadline is rounded, or a purge was skipped).
            for (auto& v : vs)
                if (v.updkey > 0 && (report & P(9)) && (v.props & P(9)))
                {
                    int pos = base.e[v.updkey].updpos;
                    if (pos < 0 || pos >= (int)hist.size())
                    {
                        v.props &= ~P(9);
                        continue;
                    }
                    std::vector<Op> h2(hist.begin(), hist.begin() + pos);
                    Op              er;
                    er.k      = OpK::Erase;
                    er.n      = 1;
                    er.key[0] = (int16_t)v.updkey;
                    h2.push_back(er);
                    Op in2   = hist[pos];
                    in2.allow = 3;
                    h2.push_back(in2);
                    h2.insert(h2.end(), hist.begin() + pos + 1, hist.end());
                    Tr t2 = exec(h2, &op);
                    if (t2.crashed || t2.sc.e[v.updkey].present == t.sc.e[v.updkey].present)
                        v.props &= ~P(9);
                }
            if ((int)outcomes.size() < 5000)
            {
                outcomes.insert(std::string(opk_name(op.k)) + t.r.str());
            }
            if (!vs.empty())
            {
                PM all = 0;
                for (auto& v : vs)
                    all |= v.props;
                bool mine = false;
                for (auto& v : vs)
                    if (v.props & report)
                    {
                        mine = true;
                        record_violation(hist, op, v.props, v.what);
                    }
                if (!mine)
                {
                    if (all == 0)
                        unattr++;
                    else
                        foreign++;
                    if (a.verbose)
                        fprintf(stderr, "foreign %s: %s after %s\n", pm_str(all).c_str(), vs[0].what.c_str(), (hist_str(hist) + "; " + op_str(op)).c_str());
                }
                // Eviction-policy runs (C10-C16): a deviation that is nothing but the unexpected loss of
                // live keys (retention, C03/C05's business) is adopted - the keys are simply gone - and the
                // search continues, because which resident a later forced eviction picks is still well
                // defined on the observed residents.
                bool only_losses = !mine && a.prop >= 10 && a.prop <= 16;
                for (auto& v : vs)
                    if (v.lost <= 0)
                        only_losses = false;
                if (only_losses)
                {
                    for (auto& v : vs)
                    {
                        post.e[v.lost].present = 0;
                        post.e[v.lost].inE     = 0;
                        post.e[v.lost].rej     = 0;
                    }
                    adopted++;
                    if (is_range(op.k))
                        continue;
                    goto accept;
                }
                if (mine || !a.noprune)
                    continue; // never expand past a deviation
                // C08 runs: the memory-safety oracle does not depend on the model, so keep exploring
                // behind functional deviations with the model re-synchronised from the scan.
                for (int k = 1; k <= cfg.nkeys; k++)
                {
                    post.e[k].present = t.sc.e[k].present;
                    if (t.sc.e[k].present)
                    {
                        post.e[k].wid = t.sc.e[k].wid;
                        if (t.sc.e[k].uc >= 0)
                            post.e[k].uses = std::min(t.sc.e[k].uc, a.kn.cmax);
                        if (post.e[k].deadline <= post.now)
                            post.e[k].deadline = INF_NS;
                    }
                }
                post.obs = t.ob;
                if (is_range(op.k))
                    continue;
            }
            if (is_range(op.k))
                pc.emplace(prefix_key(op, op.n), std::make_pair(post, t.r));
        accept:
            if (ck == CK::rr && a.rngq_all && (op.allow & 1) &&
                ((op.k == OpK::Insert && m.obs.size >= cfg.cap && !SP::live(m, op.key[0])) ||
                 (m.obs.size < cfg.cap && c15_one_eviction_range(m, op))))
            {
                Op gk   = op;
                gk.rngq = 0;
                C15G& g = c15[op_ser(gk)];
                if (g.n == 0)
                {
                    g.op = gk;
                    for (int j = 1; j <= cfg.nkeys; j++)
                        if (SP::live(m, j))
                            g.residents.push_back(j);
                    for (int j = 0; j + 1 < op.n; j++) // (range: the elements stored before the evicting one)
                        g.residents.push_back(op.key[j]);
                }
                int victim = 0;
                for (int j : g.residents)
                    if (!t.sc.e[j].present)
                        victim = j;
                g.victims[victim]++;
                g.n++;
            }
            Succ s;
            s.op  = op;
            s.m   = post;
            s.key = (whitebox ? t.dump : std::string("?")) + "##" + SP::canon(post, cfg);
            succ.push_back(std::move(s));
        }
        // C15, consecutive evictions: "no fixed position is always chosen".  From a full cache, insert a
        // new key a (generator seeded with quantile q; victim v), then re-insert v WITHOUT touching the
        // generator: the second draw comes from the advanced generator stream.  If, for every one of the
        // RNGQ seeds, the second eviction removes exactly the key the first one just put in (i.e. hits the
        // same position again), the generator state is not advancing / the choice is stuck.
        if (ck == CK::rr && whitebox && a.rngq_all && (report & P(15)) && cfg.cap >= 2 && m.obs.size >= cfg.cap)
        {
            for (int akey = 1; akey <= cfg.nkeys; akey++)
            {
                if (SP::live(m, akey))
                    continue;
                int same = 0, total = 0;
                std::vector<Op> h2 = hist;
                Op first, second;
                for (int q = 0; q < RNGQ; q++)
                {
                    first.k      = OpK::Insert;
                    first.n      = 1;
                    first.key[0] = akey;
                    first.allow  = 3;
                    first.rngq   = q;
                    first.wid[0] = depth * 4 + 1;
                    Tr  t1       = exec(hist, &first);
                    int v        = 0;
                    for (int j = 1; j <= cfg.nkeys; j++)
                        if (j != akey && SP::live(m, j) && !t1.sc.e[j].present)
                            v = j;
                    if (!v)
                        continue;
                    second        = first;
                    second.key[0] = v;
                    second.rngq   = 255;
                    second.wid[0] = depth * 4 + 5;
                    h2            = hist;
                    h2.push_back(first);
                    Tr t2 = exec(h2, &second);
                    transitions += 2;
                    total++;
                    if (!t2.sc.e[akey].present)
                        same++;
                }
                if (total == RNGQ && same == RNGQ)
                    record_violation(
                        h2,
                        second,
                        P(15),
                        "for all " + std::to_string(RNGQ) + " generator seeds the eviction that follows another one removes the key "
                        "that eviction had just inserted: the same position is chosen again every time");
            }
        }
        // C15: every resident must be chosen by exactly RNGQ/n of the RNGQ quantile branches
        // (both C15 aggregates need the generator of the explored instance: white-box build only)
        if (ck == CK::rr && whitebox && a.rngq_all && (report & P(15)))
        {
            for (auto& kv : c15)
            {
                C15G& g = kv.second;
                if (g.n != RNGQ)
                    continue; // some branch was pruned
                c15_groups++;
                int         n   = (int)g.residents.size();
                bool        bad = false;
                std::string desc;
                for (int j : g.residents)
                {
                    int c = g.victims.count(j) ? g.victims[j] : 0;
                    desc += "key" + std::to_string(j) + ":" + std::to_string(c) + " ";
                    if (c * n != RNGQ)
                        bad = true;
                }
                if (bad)
                {
                    Op o = g.op;
                    for (int j = 0; j < o.n; j++)
                        o.wid[j] = depth * 4 + j + 1;
                    record_violation(
                        hist,
                        o,
                        P(15),
                        "eviction choice is not spread evenly over the residents across the " + std::to_string(RNGQ) +
                            " generator quantiles: " + desc);
                }
            }
        }
    }

    bool time_up() { return wall() - t0 > a.deadline_s || g_confirmed_hangs > 3; }

    // ---------------------------------------------------------------------------------------
    // Dedup-free sweep: all sequences up to depth d0, no merging.
    // ---------------------------------------------------------------------------------------
    std::unordered_map<H128, int, H128H> sweep_keys;
    void sweep_rec(std::vector<Op>& hist, const Model& m, int depth, int d0)
    {
        if (depth >= d0 || time_up())
            return;
        std::vector<Succ> succ;
        expand_state(hist, m, depth, succ);
        for (auto& s : succ)
        {
            sweep_seqs++;
            if (bb_keep && depth + 1 <= 2)
            {
                // black-box product search: every history up to depth 2 is a root state
                int parent = 0;
                for (auto& o : hist)
                {
                    nodes.push_back(Node{parent, o});
                    parent = (int)nodes.size() - 1;
                }
                nodes.push_back(Node{parent, s.op});
                all_states.push_back(St{(int)nodes.size() - 1, s.m});
            }
            H128 h  = hash128(s.key);
            if (a.verbose && whitebox && !seen.count(h))
            {
                std::vector<Op> hh = hist;
                hh.push_back(s.op);
                fprintf(stderr, "SWEEP-ONLY STATE: %s  =>  %s\n", hist_str(hh).c_str(), s.key.c_str());
            }
            auto it = sweep_keys.find(h);
            if (it == sweep_keys.end() || it->second > depth + 1)
                sweep_keys[h] = depth + 1;
            hist.push_back(s.op);
            sweep_rec(hist, s.m, depth + 1, d0);
            hist.pop_back();
        }
    }

    void run_graph(bool do_sweep = true)
    {
        t0 = wall();
        build_alphabet();
        Model m0 = SP::initial(cfg);
        // initial state
        std::vector<Op> h0;
        Tr              t00 = exec(h0, nullptr);
        {
            std::vector<Viol> vs;
            Model             mm = m0;
            Op                nop;
            nop.k  = OpK::Advance;
            nop.dt = 0;
            SP::step(mm, cfg, a.kn, nop, t00.r, nullptr, t00.ob, t00.sc, vs);
            for (auto& v : vs)
                if (v.props & report)
                    record_violation(h0, nop, v.props, "initial state: " + v.what);
        }
        nodes.push_back(Node{-1, Op{}});
        std::vector<St> frontier, next;
        frontier.push_back(St{0, m0});
        if (keep_states)
            all_states.push_back(frontier.back());
        std::string k0 = t00.dump + "##" + SP::canon(m0, cfg);
        seen.insert(hash128(k0));
        std::unordered_map<H128, int, H128H> depth_of;
        depth_of[hash128(k0)] = 0;
        states                = 1;

        // sweep depth from the budget
        {
            std::vector<Op> ops;
            expand(m0, 0, ops);
            double asz = (double)std::max<size_t>(ops.size(), 2);
            int    d0  = 1;
            double tot = asz;
            while (d0 < 8 && tot * asz <= (double)a.sweep_budget)
            {
                tot *= asz;
                d0++;
            }
            sweep_depth = d0;
        }

        int             depth = 0;
        std::vector<Op> hist;
        std::vector<Succ> succ;
        fixpoint = false;
        if (!whitebox)
        {
            // no state key without the white-box dump: explore every operation sequence up to the
            // sweep depth without merging (and say so: never "fixpoint")
            frontier.clear();
            std::vector<Op> h;
            bb_keep = keep_states;
            sweep_rec(h, m0, 0, sweep_depth);
            states    = sweep_seqs + 1;
            max_depth = sweep_depth;
            capped    = true;
            if (samples.empty())
                samples.push_back("black-box fallback: all operation sequences up to depth " + std::to_string(sweep_depth));
            return;
        }
        while (!frontier.empty())
        {
            next.clear();
            for (size_t fi = 0; fi < frontier.size(); fi++)
            {
                St& st = frontier[fi];
                hist_of(st.node, hist);
                // canon-on-replay: the same history must give the same dump twice
                {
                    Tr r1 = exec(hist, nullptr), r2 = exec(hist, nullptr);
                    if (r1.crashed || r2.crashed || r1.dump != r2.dump)
                    {
                        // two executions of one history disagree: behaviour depends on uninitialised / freed
                        // memory.  Memory-safety verdict (C08); every other property stops exploring here.
                        nondet++;
                        if ((report & P(8)) && !hist.empty())
                        {
                            std::vector<Op> hp(hist.begin(), hist.end() - 1);
                            record_violation(hp, hist.back(), P(8), "two executions of the same call sequence end in different states (behaviour depends on uninitialised or freed memory)");
                        }
                        continue;
                    }
                }
                expand_state(hist, st.m, depth, succ);
                for (auto& s : succ)
                {
                    H128 h = hash128(s.key);
                    if (seen.insert(h).second)
                    {
                        if (a.verbose)
                        {
                            std::vector<Op> hh = hist;
                            hh.push_back(s.op);
                            fprintf(stderr, "BFS STATE d%d: %s  =>  %s\n", depth + 1, hist_str(hh).c_str(), s.key.c_str());
                        }
                        states++;
                        if (depth + 1 <= sweep_depth)
                            depth_of[h] = depth + 1;
                        nodes.push_back(Node{st.node, s.op});
                        next.push_back(St{(int)nodes.size() - 1, s.m});
                        if (keep_states)
                            all_states.push_back(next.back());
                        if (samples.size() < 3 && depth + 1 >= 3)
                        {
                            std::vector<Op> hh = hist;
                            hh.push_back(s.op);
                            samples.push_back(hist_str(hh) + "  =>  " + s.key);
                        }
                    }
                }
                if (states > a.max_states || time_up() || viols.size() >= 3)
                {
                    // (a handful of witnesses is enough: on a broken tree corrupted states multiply)
                    capped = true;
                    break;
                }
            }
            if (capped)
                break;
            depth++;
            if (!next.empty())
                max_depth = depth;
            frontier.swap(next);
        }
        fixpoint = !capped;
        if (samples.empty() && nodes.size() > 1)
        {
            hist_of((int)nodes.size() - 1, hist);
            samples.push_back(hist_str(hist));
        }

        // dedup-free sweep (cross-check of the state key)
        if (do_sweep && !capped && viols.empty())
        {
            std::vector<Op> h;
            long            tr_before = transitions;
            sweep_rec(h, m0, 0, sweep_depth);
            transitions = tr_before + (transitions - tr_before); // sweep executions are counted too
            if (!time_up() && nondet == 0 && crashes_contained == 0)
                for (auto& kv : sweep_keys)
                {
                    auto it = depth_of.find(kv.first);
                    if (it == depth_of.end() || it->second > kv.second)
                    {
                        if (!seen.count(kv.first))
                        {
                            fprintf(
                                stderr,
                                "HARNESS ERROR: dedup-free sweep reached a state the merged search never saw (state key "
                                "incomplete)\n");
                            exit(3);
                        }
                    }
                }
            else
                capped = true;
        }
    }

    // ---------------------------------------------------------------------------------------
    // Replay mode: run a history step by step, print what happens, re-evaluate the monitors.
    // ---------------------------------------------------------------------------------------
    int run_replay(const std::vector<Op>& ops)
    {
        Model           m = SP::initial(cfg);
        std::vector<Op> hist;
        int             bad = 0;
        std::unordered_map<std::string, std::pair<Model, Result>> pc;
        printf("replaying %zu operations on %s (cap=%d keys=%d ts=%d hash=%d lf=%g ttl=%dms tick=%dms ratio=%g)\n", ops.size(), g_ckname, cfg.cap, cfg.nkeys, cfg.ts, cfg.hash, cfg.lf, cfg.ttl_ms, cfg.tick_ms, cfg.ratio);
        for (size_t i = 0; i < ops.size(); i++)
        {
            const Op& op = ops[i];
            Model     base = m;
            const Result* pr = nullptr;
            std::pair<Model, Result> pfx;
            if (is_range(op.k) && op.n >= 2)
            {
                // build the prefix ranges from the same state
                Model pm = m;
                Result prr;
                for (int n = 1; n < op.n; n++)
                {
                    Op po = op;
                    po.n  = n;
                    Tr pt = exec(hist, &po);
                    std::vector<Viol> pv;
                    Result            prev = prr;
                    SP::step(pm, cfg, a.kn, po, pt.r, n >= 2 ? &prev : nullptr, pt.ob, pt.sc, pv);
                    prr = pt.r;
                }
                pfx  = std::make_pair(pm, prr);
                base = pfx.first;
                pr   = &pfx.second;
            }
            Tr                t = exec(hist, &op);
            std::vector<Viol> vs;
            Model             post = base;
            SP::step(post, cfg, a.kn, op, t.r, pr, t.ob, t.sc, vs);
            if (!t.val_ok)
                vs.push_back(Viol{P(8), t.val_msg});
            printf("%2zu. t=%lldns %-60s -> %s size=%ld empty=%d cap=%ld scan={", i + 1, (long long)(post.now - BASE_NS), op_str(op).c_str(), t.r.str().c_str(), t.ob.size, (int)t.ob.empty, t.ob.capacity);
            for (int k = 1; k <= cfg.nkeys; k++)
                if (t.sc.e[k].present)
                    printf("k%d:w%d%s ", k, t.sc.e[k].wid, t.sc.e[k].uc >= 0 ? ("/uc" + std::to_string(t.sc.e[k].uc)).c_str() : "");
            printf("}\n");
            for (auto& v : vs)
            {
                printf("    DEVIATION [%s] %s\n", pm_str(v.props).c_str(), v.what.c_str());
                bad++;
            }
            m = post;
            hist.push_back(op);
            if (bad)
                break;
        }
        // C15's two aggregate clauses are statements about ALL generator quantiles of the last eviction(s):
        // re-evaluate them here (the single run above shows one quantile only)
        if (!bad && ck == CK::rr && whitebox && a.prop == 15 && !ops.empty())
            bad += replay_c15(ops);
        printf(bad ? "RESULT: deviation reproduced\n" : "RESULT: no deviation\n");
        return bad ? 1 : 0;
    }

    int replay_c15(const std::vector<Op>& ops)
    {
        // model state before the last op / before the last two ops
        auto model_after = [&](size_t n) {
            Model           m = SP::initial(cfg);
            std::vector<Op> h;
            for (size_t i = 0; i < n; i++)
            {
                Tr                t = exec(h, &ops[i]);
                std::vector<Viol> vs;
                if (is_range(ops[i].k) && ops[i].n >= 2)
                {
                    // (range: rebuild through its prefixes like run_replay does)
                    Model  pm = m;
                    Result prr;
                    for (int k = 1; k < ops[i].n; k++)
                    {
                        Op po = ops[i];
                        po.n  = k;
                        Tr                pt = exec(h, &po);
                        std::vector<Viol> pv;
                        Result            prev = prr;
                        SP::step(pm, cfg, a.kn, po, pt.r, k >= 2 ? &prev : nullptr, pt.ob, pt.sc, pv);
                        prr = pt.r;
                    }
                    Model post = pm;
                    SP::step(post, cfg, a.kn, ops[i], t.r, &prr, t.ob, t.sc, vs);
                    m = post;
                }
                else
                    SP::step(m, cfg, a.kn, ops[i], t.r, nullptr, t.ob, t.sc, vs);
                h.push_back(ops[i]);
            }
            return m;
        };
        const Op&       last = ops.back();
        std::vector<Op> hist(ops.begin(), ops.end() - 1);
        if (last.rngq == 255 && ops.size() >= 2 && last.k == OpK::Insert && ops[ops.size() - 2].k == OpK::Insert)
        {
            // consecutive evictions: first (all quantiles) then the re-insert of its victim from the advanced stream
            std::vector<Op> h0(ops.begin(), ops.end() - 2);
            Model           m     = model_after(h0.size());
            Op              first = ops[ops.size() - 2];
            int             akey = first.key[0], same = 0, total = 0;
            for (int q = 0; q < RNGQ; q++)
            {
                first.rngq = q;
                Tr  t1     = exec(h0, &first);
                int v      = 0;
                for (int j = 1; j <= cfg.nkeys; j++)
                    if (j != akey && SP::live(m, j) && !t1.sc.e[j].present)
                        v = j;
                if (!v)
                    continue;
                Op second     = last;
                second.key[0] = v;
                std::vector<Op> h2 = h0;
                h2.push_back(first);
                Tr t2 = exec(h2, &second);
                total++;
                same += !t2.sc.e[akey].present;
                printf("    quantile %2d: insert(k%d) evicts k%d, re-inserting k%d then evicts %s\n", q, akey, v, v, t2.sc.e[akey].present ? "another key" : "the key just inserted");
            }
            if (total == RNGQ && same == RNGQ)
            {
                printf("    DEVIATION [C15] for all %d generator seeds the eviction that follows another one hits the same position again\n", RNGQ);
                return 1;
            }
            return 0;
        }
        Model m = model_after(hist.size());
        bool  single = last.k == OpK::Insert && (last.allow & 1) && m.obs.size >= cfg.cap && !SP::live(m, last.key[0]);
        bool  range1 = (last.allow & 1) && m.obs.size < cfg.cap && c15_one_eviction_range(m, last);
        if (!single && !range1)
            return 0;
        std::vector<int> residents;
        for (int j = 1; j <= cfg.nkeys; j++)
            if (SP::live(m, j))
                residents.push_back(j);
        for (int j = 0; j + 1 < last.n; j++)
            residents.push_back(last.key[j]);
        std::map<int, int> victims;
        for (int q = 0; q < RNGQ; q++)
        {
            Op o   = last;
            o.rngq = q;
            Tr t   = exec(hist, &o);
            int v  = 0;
            for (int j : residents)
                if (!t.sc.e[j].present)
                    v = j;
            victims[v]++;
        }
        bool        uneven = false;
        std::string desc;
        for (int j : residents)
        {
            int c = victims.count(j) ? victims[j] : 0;
            desc += "key" + std::to_string(j) + ":" + std::to_string(c) + " ";
            if (c * (int)residents.size() != RNGQ)
                uneven = true;
        }
        printf("    victims of %s over the %d generator quantiles: %s\n", op_str(last).c_str(), RNGQ, desc.c_str());
        if (uneven)
        {
            printf("    DEVIATION [C15] eviction choice is not spread evenly over the residents\n");
            return 1;
        }
        return 0;
    }

    void print_json()
    {
        printf("RESULT {\"container\":\"%s\",\"prop\":\"C%02d\",\"mode\":\"%s\",", g_ckname, a.prop, a.mode.c_str());
        printf(
            "\"cfg\":{\"cap\":%d,\"nkeys\":%d,\"ts\":%d,\"hash\":%d,\"lf\":%g,\"ttl_ms\":%d,\"tick_ms\":%d,\"ratio\":%g,"
            "\"rangelen\":%d,\"devs\":%d,\"cmax\":%d,\"rngq_all\":%d,\"valeq\":%d,\"alphabet\":%zu},",
            cfg.cap,
            cfg.nkeys,
            cfg.ts,
            cfg.hash,
            cfg.lf,
            cfg.ttl_ms,
            cfg.tick_ms,
            cfg.ratio,
            a.rangelen,
            a.devs,
            a.kn.cmax,
            a.rngq_all,
            cfg.valeq,
            base_alpha.size());
        printf(
            "\"states\":%ld,\"transitions\":%ld,\"executions\":%ld,\"max_depth\":%d,\"fixpoint\":%s,\"capped\":%s,"
            "\"sweep_depth\":%d,\"sweep_seqs\":%ld,\"foreign_pruned\":%ld,\"unattributed_pruned\":%ld,"
            "\"distinct_outcomes\":%zu,\"c15_groups\":%ld,\"crashes_contained\":%ld,\"nondeterministic\":%ld,\"wall_s\":%.2f,",
            states,
            transitions,
            execs,
            max_depth,
            fixpoint ? "true" : "false",
            capped ? "true" : "false",
            sweep_depth,
            sweep_seqs,
            foreign,
            unattr,
            outcomes.size(),
            c15_groups,
            crashes_contained,
            nondet,
            wall() - t0);
        printf("\"samples\":[");
        for (size_t i = 0; i < samples.size(); i++)
            printf("%s\"%s\"", i ? "," : "", jesc(samples[i]).c_str());
        printf("],\"violations\":[");
        for (size_t i = 0; i < viols.size(); i++)
            printf(
                "%s{\"props\":\"%s\",\"clause\":\"%s\",\"replay\":\"%s\",\"history\":\"%s\"}",
                i ? "," : "",
                viols[i].props.c_str(),
                jesc(viols[i].clause).c_str(),
                viols[i].replay.c_str(),
                jesc(viols[i].hist).c_str());
        printf("]}\n");
        fflush(stdout);
    }
};

#include "product.inc"

// -------------------------------------------------------------------------------------------------
// "fill" mode: exhaustive sweep over the configuration axis the state search cannot reach - every
// capacity in [1, capmax] x a grid of load factors x a few fixed fill / overflow / erase / refill
// scripts.  It exists for the mechanisms that only act at scale (hash-table growth: the caches store
// iterators into their unordered_map and rely on it never rehashing).  Oracle: policy-independent
// invariants through the public API (values, size, resident count) plus, in the san flavour, the
// sanitizers and checked iterators.
// -------------------------------------------------------------------------------------------------
template<class AD>
struct Fill
{
    static constexpr CK     ck = AD::kind;
    static constexpr Traits T  = traits_of(ck);
    Args&           a;
    Config          cfg;
    std::vector<Op> hist;
    long            runs{0}, steps{0};
    struct VRec
    {
        std::string props, clause, replay, hist;
    };
    std::vector<VRec> viols;
    double            t0;

    explicit Fill(Args& aa) : a(aa), cfg(aa.cfg) {}

    void bad(int prop, const std::string& clause)
    {
        if (viols.size() >= 10)
            return;
        char pb[8];
        snprintf(pb, sizeof pb, "C%02d", prop);
        if (prop != a.prop)
            return;
        VRec v;
        v.props  = pb;
        v.clause = clause;
        Args ra  = a;
        ra.cfg   = cfg;
        v.replay = write_replay(ra, hist, pb, clause);
        std::string hs;
        for (size_t i = 0; i < hist.size() && i < 12; i++)
            hs += (i ? "; " : "") + op_str(hist[i]);
        v.hist = hs + (hist.size() > 12 ? "; ... (" + std::to_string(hist.size()) + " operations, see replay)" : "");
        viols.push_back(v);
    }

    struct Ref
    {
        std::map<int, int> wid; // keys the harness wrote and has not erased (may have been evicted)
    };

    Result ap(AD& ad, Op o)
    {
        o.rngq = 3;
        hist.push_back(o);
        g_cur_hist = hist;
        steps++;
        alarm(60);
        return ad.apply(o);
    }
    Op mkins(int k, int w)
    {
        Op o;
        o.k      = OpK::Insert;
        o.n      = 1;
        o.key[0] = (int16_t)k;
        o.wid[0] = w;
        o.ttl[0] = 100;
        return o;
    }
    Op mk1(OpK kk, int k)
    {
        Op o;
        o.k      = kk;
        o.n      = 1;
        o.key[0] = (int16_t)k;
        o.peek   = 1;
        return o;
    }
    // every key the reference knows must, if found, carry its write; the number found must equal
    // min(#known, capacity) (no expiry in these scripts) and size() must say the same
    void verify(AD& ad, Ref& ref, int maxkey, const char* where)
    {
        int found = 0;
        for (int k = 1; k <= maxkey; k++)
        {
            Result r = ad.apply(mk1(OpK::Find, k)); // peek where available; not recorded in the history
            if (r.v[0])
            {
                found++;
                auto it = ref.wid.find(k);
                if (it == ref.wid.end())
                    bad(1, std::string(where) + ": key " + std::to_string(k) + " is found but was erased / never written");
                else if (!T.is_set && r.v[1] != (g_val_eq_mode ? k : it->second))
                    bad(1, std::string(where) + ": key " + std::to_string(k) + " returns write " + std::to_string(r.v[1]) + ", latest write is " + std::to_string(it->second));
            }
        }
        Obs  ob   = ad.observe();
        long want = T.has_capacity ? std::min<long>((long)ref.wid.size(), cfg.cap) : (long)ref.wid.size();
        if (found != want)
        {
            bad(3, std::string(where) + ": " + std::to_string(found) + " keys are found, " + std::to_string(want) + " must be resident");
            // resynchronise: forget what is gone
            for (auto it = ref.wid.begin(); it != ref.wid.end();)
            {
                Result r = ad.apply(mk1(OpK::Find, it->first));
                it       = r.v[0] ? std::next(it) : ref.wid.erase(it);
            }
        }
        if (ob.size != found || ob.empty != (found == 0) || (T.has_capacity && ob.capacity != cfg.cap))
            bad(2, std::string(where) + ": size() " + std::to_string(ob.size) + " empty() " + std::to_string(ob.empty) + " capacity() " + std::to_string(ob.capacity) + " with " + std::to_string(found) + " keys found");
    }
    void forget_evicted(AD& ad, Ref& ref)
    {
        for (auto it = ref.wid.begin(); it != ref.wid.end();)
        {
            Result r = ad.apply(mk1(OpK::Find, it->first));
            it       = r.v[0] ? std::next(it) : ref.wid.erase(it);
        }
    }

    void script(int which)
    {
        hist.clear();
        g_cur_cfg       = &cfg;
        g_now_ns        = BASE_NS;
        ValStats before = g_vs;
        {
            AD  ad(cfg);
            Ref ref;
            int cap = cfg.cap, w = 1;
            int maxkey = std::min(2 * cap + 4, 120);
            auto ins = [&](int k) {
                Result r = ap(ad, mkins(k, w));
                if (!r.v[0])
                    bad(9, "insert_or_update of key " + std::to_string(k) + " was rejected");
                ref.wid[k] = w++;
                if (T.has_capacity && (int)ref.wid.size() > cap)
                    forget_evicted(ad, ref);
            };
            auto era = [&](int k) {
                bool   was = ad.apply(mk1(OpK::Find, k)).v[0];
                Result r   = ap(ad, mk1(OpK::Erase, k));
                if ((bool)r.v[0] != was)
                    bad(1, "erase(" + std::to_string(k) + ") returned " + std::to_string(r.v[0]) + " but the key was " + (was ? "found" : "not found") + " just before");
                ref.wid.erase(k);
            };
            if (which == 0)
            {
                // fill beyond capacity, erase everything in ascending order, refill
                for (int k = 1; k <= cap + 3 && k <= maxkey; k++)
                {
                    ins(k);
                    verify(ad, ref, maxkey, "after fill insert");
                }
                for (int k = 1; k <= cap + 3 && k <= maxkey; k++)
                    era(k);
                verify(ad, ref, maxkey, "after erasing everything");
                for (int k = 1; k <= cap && k <= maxkey; k++)
                    ins(k);
                verify(ad, ref, maxkey, "after refill");
            }
            else if (which == 1)
            {
                // fill, erase the newer half in descending order, insert new keys past capacity, update all
                for (int k = 1; k <= cap; k++)
                    ins(k);
                for (int k = cap; k > cap / 2; k--)
                    era(k);
                verify(ad, ref, maxkey, "after erasing the newer half");
                for (int k = cap + 1; k <= maxkey; k++)
                    ins(k);
                verify(ad, ref, maxkey, "after overflow inserts");
                for (int k = 1; k <= maxkey; k++)
                    if (ref.wid.count(k))
                        ins(k);
                verify(ad, ref, maxkey, "after updating every resident key");
            }
            else
            {
                // sliding window: insert k+1, erase k
                for (int k = 1; k < maxkey; k++)
                {
                    ins(k);
                    ins(k + 1);
                    era(k);
                    if (k % 3 == 0)
                        verify(ad, ref, maxkey, "sliding window");
                }
                if constexpr (T.has_clear)
                {
                    Op c;
                    c.k = OpK::Clear;
                    ap(ad, c);
                    ref.wid.clear();
                    verify(ad, ref, maxkey, "after clear()");
                    for (int k = 1; k <= cap + 1 && k <= maxkey; k++)
                        ins(k);
                    verify(ad, ref, maxkey, "refill after clear()");
                }
            }
        }
        if (g_vs.live != before.live || g_vs.bad_destroy != before.bad_destroy || g_vs.bad_use != before.bad_use)
        {
            bad(8, "value instances not destroyed exactly once (" + std::to_string(g_vs.live - before.live) + " still alive)");
            g_vs = before;
        }
        runs++;
    }

    // ---------------------------------------------------------------------------------------
    // "mass" scripts: one scenario per size N in which MANY entries share a fate (a deadline, an
    // idle period, one range call) - for the mechanisms whose work per call grows with the number of
    // entries (purge loops, aging loops, range loops) and could be (wrongly) bounded or batched.
    // The clock starts off the millisecond grid so that rounding of instants shows as well.
    // ---------------------------------------------------------------------------------------
    int  mass_id{0}, mass_n{0};
    void mbad(int prop, const std::string& clause)
    {
        if (viols.size() >= 10 || prop != a.prop)
            return;
        char pb[8];
        snprintf(pb, sizeof pb, "C%02d", prop);
        VRec v;
        v.props  = pb;
        v.clause = "mass script " + std::to_string(mass_id) + " with " + std::to_string(mass_n) + " entries: " + clause;
        Args ra  = a;
        ra.cfg   = cfg;
        g_replay_engine = "seqmc-mass";
        std::vector<Op> tag;
        Op              t;
        t.k      = OpK::Advance; // carrier line: dt = script id, wid[0] = N (the replay re-runs the script)
        t.dt     = mass_id;
        t.wid[0] = mass_n;
        tag.push_back(t);
        v.replay = write_replay(ra, tag, pb, v.clause);
        g_replay_engine = "seqmc-fill";
        std::string hs;
        for (size_t i = 0; i < hist.size() && i < 8; i++)
            hs += (i ? "; " : "") + op_str(hist[i]);
        v.hist = hs + (hist.size() > 8 ? "; ... (" + std::to_string(hist.size()) + " calls)" : "");
        viols.push_back(v);
    }
    Op spanop(OpK k, int n, int widbase, int allow = 3, int peek = 1)
    {
        Op o;
        o.k      = k;
        o.span   = (int16_t)n;
        o.n      = 0;
        o.allow  = allow;
        o.peek   = peek;
        o.wid[0] = widbase;
        o.ttl[0] = 5;
        return o;
    }
    Op adv(int64_t dt)
    {
        Op o;
        o.k  = OpK::Advance;
        o.dt = dt;
        return o;
    }
    Op simple(OpK k)
    {
        Op o;
        o.k = k;
        return o;
    }
    int count_found(AD& ad, int N, bool check_wid, int widbase, int prop_for_wid)
    {
        int found = 0;
        for (int k = 1; k <= N; k++)
        {
            Result r = ad.apply(mk1(OpK::Find, k));
            if (r.v[0])
            {
                found++;
                if (check_wid && !T.is_set && r.v[1] != (g_val_eq_mode ? k : widbase + k - 1))
                    mbad(prop_for_wid, "key " + std::to_string(k) + " returns write " + std::to_string(r.v[1]) + ", expected " + std::to_string(widbase + k - 1));
            }
        }
        return found;
    }
    void mass_script(int id, int N)
    {
        mass_id = id;
        mass_n  = N;
        hist.clear();
        cfg.cap     = N;
        cfg.nkeys   = 3;
        cfg.lf      = 1.0f;
        cfg.hash    = 0;
        cfg.ttl_ms  = 5;
        cfg.tick_ms = 5;
        cfg.ratio   = 0.5f;
        g_hash_mode = 0;
        g_cur_cfg   = &cfg;
        g_now_ns    = BASE_NS + 250000; // 250 us off the millisecond grid
        const int64_t t0c      = g_now_ns;
        const int64_t deadline = t0c + 5 * MS;
        ValStats      before   = g_vs;
        {
            AD ad(cfg);
            if (id == 0)
            {
                // one long range of every form
                Result r = ap(ad, spanop(OpK::InsertRange, N, 1000));
                if (r.v[0] != N)
                    mbad(18, "insert_range of " + std::to_string(N) + " new keys reported " + std::to_string(r.v[0]));
                int f = count_found(ad, N, true, 1000, 1);
                if (f != N)
                    mbad(3, std::to_string(f) + " of " + std::to_string(N) + " keys are found after one insert_range into an empty container of that capacity");
                if (ad.observe().size != N)
                    mbad(2, "size() is " + std::to_string(ad.observe().size) + " after inserting " + std::to_string(N) + " keys");
                for (OpK fk : {OpK::FindRange, OpK::FindRangeFill})
                {
                    Result q = ap(ad, spanop(fk, N, 0));
                    if (q.v[0] != N || q.v[1] != N || q.v[2] != 1)
                        mbad(18, std::string(opk_name(fk)) + " over the " + std::to_string(N) + " resident keys returned " + q.str() + " (results, found, in order, checksum)");
                }
                Result u = ap(ad, spanop(OpK::InsertRange, N, 5000, 2));
                if (u.v[0] != N)
                    mbad(9, "update-only insert_range over " + std::to_string(N) + " live keys reported " + std::to_string(u.v[0]));
                count_found(ad, N, true, 5000, 1);
                Result e = ap(ad, spanop(OpK::EraseRange, N, 0));
                if (e.v[0] != N)
                    mbad(18, "erase_range over " + std::to_string(N) + " resident keys reported " + std::to_string(e.v[0]));
                if (ad.observe().size != 0 || count_found(ad, N, false, 0, 1) != 0)
                    mbad(1, "keys are still found / size() != 0 after erasing every key");
            }
            else if (id == 1 && (T.ttl_cache || T.ttl_map))
            {
                // N entries with one deadline: nothing early, everything at the deadline, clean counts them all
                for (int k = 1; k <= N; k++)
                {
                    Op o     = mkins(k, 2000 + k - 1);
                    o.ttl[0] = 5;
                    ap(ad, o);
                }
                ap(ad, adv(deadline - g_now_ns - 1));
                int f = count_found(ad, N, true, 2000, 1);
                if (f != N)
                    mbad(5, "1 ns before the common deadline only " + std::to_string(f) + " of " + std::to_string(N) + " keys are found");
                ap(ad, adv(1));
                if (T.ttl_cache)
                {
                    Result c = ap(ad, simple(OpK::Clean));
                    if (c.v[0] != N || ad.observe().size != 0)
                        mbad(17, "clean_expired_values() at the common deadline returned " + std::to_string(c.v[0]) + " and left size() " + std::to_string(ad.observe().size));
                }
                else
                {
                    Result q = ad.apply(mk1(OpK::Find, N));
                    if (q.v[0])
                    {
                        mbad(4, "the last written key is served at its deadline (" + std::to_string(N) + " entries expired together)");
                        mbad(1, "the last written key is reported with a value at its deadline, i.e. after expiry undid the write (" + std::to_string(N) + " entries expired together)");
                    }
                    if (ad.observe().size != 0)
                        mbad(2, "size() is " + std::to_string(ad.observe().size) + " right after a lookup although every entry has expired");
                    Result c = ap(ad, simple(OpK::Clean));
                    if (c.v[0] != 0)
                        mbad(17, "clean_expired_values() found " + std::to_string(c.v[0]) + " entries left after a lookup that should have purged them all");
                }
            }
            else if (id == 2 && (T.ttl_cache || T.ttl_map))
            {
                // lookups at the deadline without any clean first; then one insert
                for (int k = 1; k <= N; k++)
                {
                    Op o     = mkins(k, 3000 + k - 1);
                    o.ttl[0] = 5;
                    ap(ad, o);
                }
                ap(ad, adv(deadline - g_now_ns));
                Result q = ap(ad, spanop(OpK::FindRange, N, 0));
                if (q.v[1] != 0)
                {
                    mbad(4, "find_range at the common deadline still returns " + std::to_string(q.v[1]) + " of " + std::to_string(N) + " keys");
                    mbad(1, "find_range reports values for " + std::to_string(q.v[1]) + " of " + std::to_string(N) + " keys whose writes were undone by expiry");
                }
                int f = count_found(ad, N, false, 0, 1);
                if (f != 0)
                {
                    mbad(4, std::to_string(f) + " keys are served at their deadline");
                    mbad(1, std::to_string(f) + " keys are reported with a value although expiry undid their writes");
                }
            }
            else if (id == 3 && T.ttl_map)
            {
                // a single insert after everything expired must purge the whole backlog
                Result r = ap(ad, spanop(OpK::InsertRange, N, 4000));
                (void)r;
                ap(ad, adv(deadline - g_now_ns));
                Op o     = mkins(N + 1, 4999);
                o.ttl[0] = 5;
                ap(ad, o);
                if (ad.observe().size != 1)
                    mbad(2, "size() is " + std::to_string(ad.observe().size) + " right after an insert although only the new key is live (" + std::to_string(N) + " entries had expired)");
                Result c = ap(ad, simple(OpK::Clean));
                if (c.v[0] != 0)
                    mbad(17, "the insert left " + std::to_string(c.v[0]) + " expired entries for clean_expired_values()");
            }
            else if (id == 4 && ck == CK::lfuda)
            {
                // N entries idle longer than the tick: one aging point ages them all
                for (int k = 1; k <= N; k++)
                    ap(ad, mkins(k, 6000 + k - 1));
                for (int k = 1; k <= N; k++)
                {
                    Op f   = mk1(OpK::Find, k);
                    f.peek = 0;
                    ap(ad, f);
                }
                ap(ad, adv(5 * MS + 1));
                Result d = ap(ad, simple(OpK::DynAge));
                if (d.v[0] != N)
                    mbad(14, "dynamically_age() returned " + std::to_string(d.v[0]) + " with " + std::to_string(N) + " entries idle longer than the tick");
                int wrong = 0;
                for (int k = 1; k <= N; k++)
                {
                    Op f   = mk1(OpK::FindUC, k);
                    f.peek = 1;
                    Result q = ad.apply(f);
                    if (!q.v[0] || q.v[2] != 1)
                        wrong++;
                }
                if (wrong)
                    mbad(14, std::to_string(wrong) + " of " + std::to_string(N) + " entries do not have use count floor(2 * 0.5) after the aging point");
            }
            else if (id == 5 && ck == CK::lfuda)
            {
                // the same, but the aging point is an evicting insert
                for (int k = 1; k <= N; k++)
                    ap(ad, mkins(k, 7000 + k - 1));
                for (int k = 1; k <= N; k++)
                {
                    Op f   = mk1(OpK::Find, k);
                    f.peek = 0;
                    ap(ad, f);
                }
                ap(ad, adv(5 * MS + 1));
                ap(ad, mkins(N + 1, 7999));
                int wrong = 0, present = 0;
                for (int k = 1; k <= N; k++)
                {
                    Op f   = mk1(OpK::FindUC, k);
                    f.peek = 1;
                    Result q = ad.apply(f);
                    if (q.v[0])
                    {
                        present++;
                        if (q.v[2] != 1)
                            wrong++;
                    }
                }
                if (present != N - 1)
                    mbad(3, std::to_string(N - present) + " entries left the full cache for one new key");
                if (wrong)
                    mbad(14, std::to_string(wrong) + " entries kept their use count although they were idle longer than the tick when a victim was chosen");
                Result d = ap(ad, simple(OpK::DynAge));
                if (d.v[0] != 0)
                    mbad(14, "dynamically_age() right after the evicting insert still aged " + std::to_string(d.v[0]) + " entries");
            }
            else if (id == 7 && ck == CK::tlru && N == 1)
            {
                // a very long TTL (100 days): alive one day before, gone at the deadline
                const int64_t day = 24LL * 3600 * 1000 * MS;
                Op            o   = mkins(1, 9000);
                o.ttl_big         = 100LL * 24 * 3600 * 1000;
                ap(ad, o);
                ap(ad, adv(99 * day));
                if (!ad.apply(mk1(OpK::Find, 1)).v[0])
                    mbad(5, "an entry written with a TTL of 100 days is gone after 99 days");
                ap(ad, adv(day));
                if (ad.apply(mk1(OpK::Find, 1)).v[0])
                    mbad(4, "an entry written with a TTL of 100 days is still served at its deadline");
            }
            else if (id == 8 && ck == CK::lfuda && N <= 3)
            {
                // decay with ratios that need more than three fractional bits, on counts >= 16
                static const float ratios[] = {0.9375f, 0.0625f, 0.6875f};
                // (this script builds its own caches: one per ratio)
                for (float rt : ratios)
                {
                    Config c2 = cfg;
                    c2.cap    = 2;
                    c2.ratio  = rt;
                    g_now_ns  = t0c;
                    AD a2(c2);
                    a2.apply(mkins(1, 9100));
                    for (int i = 0; i < 16 * N - 1; i++)
                    {
                        Op f   = mk1(OpK::Find, 1);
                        f.peek = 0;
                        a2.apply(f);
                    }
                    g_now_ns += 5 * MS + 1;
                    a2.apply(simple(OpK::DynAge));
                    Op f   = mk1(OpK::FindUC, 1);
                    f.peek = 1;
                    Result q    = a2.apply(f);
                    int    cnt  = 16 * N;
                    int    want = (int)(size_t)(cnt * rt);
                    if (!q.v[0] || q.v[2] != want)
                        mbad(14, "use count " + std::to_string(cnt) + " aged with ratio " + std::to_string(rt) + " became " + std::to_string(q.v[2]) + ", expected " + std::to_string(want));
                }
            }
            else if (id == 9 && (T.ttl_map || (T.ttl_cache && !T.ttl_per_entry)) && N == 1)
            {
                // a very long UNIFORM TTL (100 days), given to the constructor and - utlru - through update_ttl:
                // alive one day before the deadline, gone at the deadline
                const int64_t day = 24LL * 3600 * 1000 * MS;
                for (int via_update = 0; via_update <= (T.has_update_ttl ? 1 : 0); via_update++)
                {
                    Config c2 = cfg;
                    c2.cap    = 2;
                    if (!via_update)
                        c2.ttl_big_ms = 100LL * 24 * 3600 * 1000;
                    g_now_ns = t0c;
                    AD a2(c2);
                    if (via_update)
                    {
                        Op u      = simple(OpK::UpdateTtl);
                        u.ttl_big = 100LL * 24 * 3600 * 1000;
                        a2.apply(u);
                    }
                    a2.apply(mkins(1, 9200));
                    g_now_ns += 99 * day;
                    if (!a2.apply(mk1(OpK::Find, 1)).v[0])
                        mbad(5, std::string("an entry written under a uniform TTL of 100 days (") + (via_update ? "update_ttl" : "constructor") + ") is gone after 99 days");
                    // an update restarts the same long TTL
                    Op w2 = mkins(1, 9201);
                    a2.apply(w2);
                    g_now_ns += 99 * day;
                    if (!a2.apply(mk1(OpK::Find, 1)).v[0])
                        mbad(5, std::string("an entry updated under a uniform TTL of 100 days (") + (via_update ? "update_ttl" : "constructor") + ") is gone 99 days after the update");
                    g_now_ns += day;
                    if (a2.apply(mk1(OpK::Find, 1)).v[0])
                        mbad(4, "an entry written under a uniform TTL of 100 days is still served at its deadline");
                }
            }
            else if (id == 6 && T.has_uc)
            {
                // many uses of one key
                ap(ad, mkins(1, 8000));
                int M = N;
                for (int i = 0; i < M; i++)
                {
                    Op f   = mk1(OpK::Find, 1);
                    f.peek = 0;
                    ad.apply(f);
                }
                Op f   = mk1(OpK::FindUC, 1);
                f.peek = 1;
                Result q = ad.apply(f);
                if (!q.v[0] || q.v[2] != M + 1)
                    mbad(ck == CK::lfu ? 11 : 14, "use count is " + std::to_string(q.v[2]) + " after one insert and " + std::to_string(M) + " lookups");
            }
        }
        if constexpr (ck == CK::rr)
            if (id == 10)
            {
                // C15 at scale (seed C15f: a 16-bit victim index, exact up to 65536 slots): from a freshly filled
                // cache of N entries the victims chosen under the RNGQ generator quantiles must be spread over the
                // whole position range.  A fresh fill puts the i-th key into the i-th slot; cut the residents in
                // fill order into RNGQ equal blocks: the quantile seeds lie in the middle half of RNGQ equal slices
                // of the generator range, so under a uniform draw over [0, N-1] every block loses exactly one
                // entry (N >= 48 keeps the slice midpoints off the block borders).  Keys are passed to the
                // container directly (Op keys are 16 bit).
                std::vector<int> per_block(RNGQ, 0);
                std::string      vs;
                bool             sane = true;
                for (int q = 0; q < RNGQ && sane; q++)
                {
                    AD a2(cfg);
                    for (int k = 1; k <= N; k++)
                        a2.c.insert(Key{k}, Val(7000 + (k & 1023), k), cap::allow::insert_or_update);
                    a2.reseed(q);
                    bool ok      = a2.c.insert(Key{N + 1}, Val(7999, N + 1), cap::allow::insert_or_update);
                    int  missing = 0, gone = 0;
                    for (int k = 1; k <= N; k++)
                        if (!a2.c.find(Key{k}).has_value())
                        {
                            missing++;
                            gone = k;
                        }
                    steps += 2 * (long)N + 1;
                    if (!ok || missing != 1 || !a2.c.find(Key{N + 1}).has_value() || (long)a2.c.size() != (long)N)
                    {
                        mbad(3, "an insert of a new key into a full cache (generator quantile " + std::to_string(q) + ") returned " + std::to_string(ok) +
                                    ", removed " + std::to_string(missing) + " residents and left size() " + std::to_string(a2.c.size()));
                        mbad(15, "an evicting insert (generator quantile " + std::to_string(q) + ") removed " + std::to_string(missing) +
                                     " prior residents instead of exactly one, or not the prior residents only");
                        sane = false;
                        break;
                    }
                    per_block[(int)(((long)(gone - 1) * RNGQ) / N)]++;
                    vs += (q ? "," : "") + std::to_string(gone - 1);
                }
                // (the black-box fallback build cannot seed the generator: only the one-victim part is judged there)
                if (sane && AD::whitebox)
                    for (int b = 0; b < RNGQ; b++)
                        if (per_block[b] != 1)
                        {
                            mbad(15, "eviction choice is not spread over the resident positions: block " + std::to_string(b) + " of the " + std::to_string(RNGQ) +
                                         " equal blocks of fill positions is chosen by " + std::to_string(per_block[b]) + " of the " + std::to_string(RNGQ) +
                                         " generator quantiles (victim positions by quantile: " + vs + ")");
                            break;
                        }
            }
        if (g_vs.live != before.live || g_vs.bad_destroy != before.bad_destroy || g_vs.bad_use != before.bad_use)
        {
            mbad(8, "value instances not destroyed exactly once");
            g_vs = before;
        }
        runs++;
    }
    void run_mass(int nmax)
    {
        static const int sizes[] = {1, 2, 3, 7, 33, 64, 65, 100, 127, 128, 129, 130, 257, 513, 700, 1025, 2049};
        for (int N : sizes)
            if (N <= nmax)
                for (int id = 0; id <= 9; id++)
                    mass_script(id, N);
        if (ck == CK::rr && (a.prop == 15 || a.prop == 3))
            for (int N : {48, 120, 4097, 65536, 65537, 70000, 131073})
                mass_script(10, N);
    }

    // replay of a recorded fill history: same calls, same reference, verify after every call
    int replay(const std::vector<Op>& ops)
    {
        hist.clear();
        g_now_ns = BASE_NS;
        AD  ad(cfg);
        Ref ref;
        int maxkey = 1;
        for (auto& o : ops)
            for (int i = 0; i < o.n; i++)
                maxkey = std::max<int>(maxkey, o.key[i]);
        printf("replaying %zu calls on %s capacity %d load factor %g hash mode %d\n", ops.size(), g_ckname, cfg.cap, cfg.lf, cfg.hash);
        size_t before = viols.size();
        for (auto& o : ops)
        {
            bool was = (o.k == OpK::Erase) ? (bool)ad.apply(mk1(OpK::Find, o.key[0])).v[0] : false;
            Result r = ap(ad, o);
            if (o.k == OpK::Insert)
            {
                ref.wid[o.key[0]] = o.wid[0];
                if (T.has_capacity && (int)ref.wid.size() > cfg.cap)
                    forget_evicted(ad, ref);
            }
            else if (o.k == OpK::Erase)
            {
                if ((bool)r.v[0] != was)
                    bad(a.prop, "erase result disagrees with the lookup just before");
                ref.wid.erase(o.key[0]);
            }
            else if (o.k == OpK::Clear)
                ref.wid.clear();
            verify(ad, ref, maxkey, "replay");
            printf("  %-48s -> %s size=%ld%s\n", op_str(o).c_str(), r.str().c_str(), ad.observe().size, viols.size() > before ? "   <-- DEVIATION" : "");
            if (viols.size() > before)
                break;
        }
        for (size_t i = before; i < viols.size(); i++)
            printf("    DEVIATION [%s] %s\n", viols[i].props.c_str(), viols[i].clause.c_str());
        printf(viols.size() > before ? "RESULT: deviation reproduced\n" : "RESULT: no deviation\n");
        return viols.size() > before ? 1 : 0;
    }

    void run(int capmax)
    {
        t0 = wall();
        g_replay_engine = "seqmc-fill";
        static const float lfs[] = {0.1f, 0.25f, 0.5f, 0.75f, 1.0f, 2.0f, 4.0f};
        for (int cap = 1; cap <= capmax; cap++)
            for (float lf : lfs)
                for (int h = 0; h <= (cap <= 8 ? 1 : 0); h++)
                    for (int sc = 0; sc < 3; sc++)
                    {
                        cfg.cap     = cap;
                        cfg.lf      = lf;
                        cfg.hash    = h;
                        cfg.nkeys   = 3;
                        cfg.ttl_ms  = 100;
                        g_hash_mode = h;
                        script(sc);
                    }
        run_mass(capmax >= 100 ? 2049 : 1025);
    }
};

template<class AD>
static int run_fill(Args& a)
{
    Fill<AD> f(a);
    int      capmax = a.cfg.cap;
    f.run(capmax);
    printf("RESULT {\"container\":\"%s\",\"prop\":\"C%02d\",\"mode\":\"fill\",", g_ckname, a.prop);
    printf(
        "\"cfg\":{\"cap\":%d,\"nkeys\":0,\"ts\":%d,\"hash\":2,\"lf\":0,\"ttl_ms\":100,\"tick_ms\":%d,\"ratio\":%g,\"rangelen\":0,\"devs\":0,"
        "\"cmax\":0,\"valeq\":%d,\"what\":\"capacity 1..%d x load factor {0.1,0.25,0.5,0.75,1,2,4} x 3 fill/overflow/erase/refill scripts\"},",
        capmax,
        a.cfg.ts,
        a.cfg.tick_ms,
        a.cfg.ratio,
        a.cfg.valeq,
        capmax);
    printf(
        "\"states\":%ld,\"transitions\":%ld,\"executions\":%ld,\"max_depth\":0,\"fixpoint\":true,\"capped\":false,\"sweep_depth\":0,"
        "\"sweep_seqs\":0,\"foreign_pruned\":0,\"unattributed_pruned\":0,\"distinct_outcomes\":2,\"c15_groups\":0,\"wall_s\":%.2f,",
        f.runs,
        f.steps,
        f.runs,
        wall() - f.t0);
    printf("\"samples\":[\"fill scripts over the capacity x load-factor grid (%ld runs, %ld calls)\"],\"violations\":[", f.runs, f.steps);
    for (size_t i = 0; i < f.viols.size(); i++)
        printf(
            "%s{\"props\":\"%s\",\"clause\":\"%s\",\"replay\":\"%s\",\"history\":\"%s\"}",
            i ? "," : "",
            f.viols[i].props.c_str(),
            jesc(f.viols[i].clause).c_str(),
            f.viols[i].replay.c_str(),
            jesc(f.viols[i].hist).c_str());
    printf("]}\n");
    fflush(stdout);
    return f.viols.empty() ? 0 : 1;
}

template<class A>
static int run(Args& a, const std::vector<Op>& replay_ops)
{
    if (a.mode == "massreplay")
    {
        Fill<A> f(a);
        f.t0 = wall();
        if (replay_ops.empty())
            return 3;
        int id = (int)replay_ops[0].dt, N = replay_ops[0].wid[0];
        printf("re-running mass script %d with %d entries on %s (thread_safe %d)\n", id, N, g_ckname, a.cfg.ts);
        f.mass_script(id, N);
        for (auto& v : f.viols)
            printf("    DEVIATION [%s] %s\n", v.props.c_str(), v.clause.c_str());
        printf(f.viols.empty() ? "RESULT: no deviation\n" : "RESULT: deviation reproduced\n");
        return f.viols.empty() ? 0 : 1;
    }
    if (a.mode == "fillreplay")
    {
        Fill<A> f(a);
        f.t0 = wall();
        return f.replay(replay_ops);
    }
    if (a.mode == "replay")
    {
        Engine<A> e(a);
        e.t0 = wall();
        return e.run_replay(replay_ops);
    }
    if (a.mode == "preplay")
        return run_product<A>(a);
    if (a.mode == "fill")
        return run_fill<A>(a);
    if (a.mode == "graph")
    {
        Engine<A> e(a);
        e.run_graph();
        e.print_json();
        return e.viols.empty() ? 0 : 1;
    }
    return run_product<A>(a);
}

int main(int argc, char** argv)
{
    Args a;
    g_args = &a;
    constexpr CK ck = (CK)VF_CK;
    g_ckname        = ck_name(ck);
    std::vector<Op> replay_ops;
    for (int i = 1; i < argc; i++)
    {
        std::string s = argv[i];
        auto        nx = [&]() -> const char* { return i + 1 < argc ? argv[++i] : ""; };
        if (s == "--prop")
            a.prop = atoi(nx());
        else if (s == "--mode")
            a.mode = nx();
        else if (s == "--cap")
            a.cfg.cap = atoi(nx());
        else if (s == "--keys")
            a.cfg.nkeys = atoi(nx());
        else if (s == "--ts")
            a.cfg.ts = atoi(nx());
        else if (s == "--hash")
            a.cfg.hash = atoi(nx());
        else if (s == "--lf")
            a.cfg.lf = atof(nx());
        else if (s == "--ttl")
            a.cfg.ttl_ms = atoi(nx());
        else if (s == "--tick")
            a.cfg.tick_ms = atoi(nx());
        else if (s == "--ratio")
            a.cfg.ratio = atof(nx());
        else if (s == "--valeq")
            a.cfg.valeq = atoi(nx());
        else if (s == "--ttlset")
        {
            a.ttlset.clear();
            std::string v = nx();
            size_t      p = 0;
            while (p < v.size())
            {
                a.ttlset.push_back(atoi(v.c_str() + p));
                p = v.find(',', p);
                if (p == std::string::npos)
                    break;
                p++;
            }
        }
        else if (s == "--rangelen")
            a.rangelen = atoi(nx());
        else if (s == "--devs")
            a.devs = atoi(nx());
        else if (s == "--cmax")
            a.kn.cmax = atoi(nx());
        else if (s == "--sweep-budget")
            a.sweep_budget = atol(nx());
        else if (s == "--max-states")
            a.max_states = atol(nx());
        else if (s == "--deadline")
            a.deadline_s = atof(nx());
        else if (s == "--replay-dir")
            a.replay_dir = nx();
        else if (s == "--rngq-all")
            a.rngq_all = atoi(nx());
        else if (s == "--adv")
            a.adv = atoi(nx());
        else if (s == "--range-stride")
            a.range_stride = atoi(nx());
        else if (s == "--product-depth")
            a.product_depth = atoi(nx());
        else if (s == "--max-pairs")
            a.max_pairs = atol(nx());
        else if (s == "--verbose")
            a.verbose = 1;
        else if (s == "--noprune")
            a.noprune = atoi(nx());
        else if (s == "--replay")
        {
            a.mode        = "replay";
            a.replay_file = nx();
        }
        else
        {
            fprintf(stderr, "unknown argument %s\n", s.c_str());
            return 3;
        }
    }
    g_dump_free_iters = !(a.prop == 18 || a.prop == 19);
    if ((a.mode == "graph" || a.mode == "product") && (a.cfg.nkeys < 1 || a.cfg.nkeys > MAXK))
    {
        fprintf(stderr, "HARNESS ERROR: --keys must be 1..%d\n", MAXK);
        return 3;
    }
    if (a.mode == "replay")
    {
        FILE* f = fopen(a.replay_file.c_str(), "r");
        if (!f)
        {
            fprintf(stderr, "cannot open %s\n", a.replay_file.c_str());
            return 3;
        }
        char line[1024];
        while (fgets(line, sizeof line, f))
        {
            if (!strncmp(line, "cfg ", 4))
            {
                double lf, ratio;
                a.cfg.valeq = 0;
                sscanf(line + 4, "%d %d %d %d %lf %d %d %lf %d", &a.cfg.cap, &a.cfg.nkeys, &a.cfg.ts, &a.cfg.hash, &lf, &a.cfg.ttl_ms, &a.cfg.tick_ms, &ratio, &a.cfg.valeq);
                a.cfg.lf    = (float)lf;
                a.cfg.ratio = (float)ratio;
            }
            else if (!strncmp(line, "op ", 3))
            {
                Op o;
                if (op_parse(line + 3, o))
                    replay_ops.push_back(o);
            }
            else if (!strncmp(line, "engine seqmc-product", 20))
                a.mode = "preplay";
            else if (!strncmp(line, "engine seqmc-mass", 17))
                a.mode = "massreplay";
            else if (!strncmp(line, "engine seqmc-fill", 17))
                a.mode = "fillreplay";
            else if (!strncmp(line, "props ", 6))
            {
                int p = 0;
                if (sscanf(line + 6, "C%d", &p) == 1)
                    a.prop = p;
            }
        }
        fclose(f);
    }
    a.kn.track_rej = (a.prop == 9);
    g_hash_mode    = a.cfg.hash;
    g_val_eq_mode  = a.cfg.valeq;
    signal(SIGALRM, on_signal);
    signal(SIGABRT, on_signal);
    if (__sanitizer_set_death_callback)
        __sanitizer_set_death_callback(on_san_death);
    else
    {
        // plain flavour: contain crashes (handlers on an alternate stack so stack overflows are survivable)
        static char     altstack[1 << 16];
        stack_t         st;
        st.ss_sp    = altstack;
        st.ss_size  = sizeof altstack;
        st.ss_flags = 0;
        sigaltstack(&st, nullptr);
        struct sigaction sa;
        memset(&sa, 0, sizeof sa);
        sa.sa_handler = on_signal;
        sa.sa_flags   = SA_ONSTACK | SA_NODEFER;
        sigaction(SIGSEGV, &sa, nullptr);
        sigaction(SIGBUS, &sa, nullptr);
        sigaction(SIGABRT, &sa, nullptr);
        sigaction(SIGALRM, &sa, nullptr);
        if (a.mode != "replay" && a.mode != "preplay" && a.mode != "fillreplay" && a.mode != "massreplay" && a.mode != "fill")
        {
            Engine<Ad<ck, cappuccino::thread_safe::no>>::containment()  = true;
            Engine<Ad<ck, cappuccino::thread_safe::yes>>::containment() = true;
        }
    }
    if (a.cfg.ts)
    {
        warm_up_other_instance<Ad<ck, cappuccino::thread_safe::yes>>();
        return run<Ad<ck, cappuccino::thread_safe::yes>>(a, replay_ops);
    }
    warm_up_other_instance<Ad<ck, cappuccino::thread_safe::no>>();
    return run<Ad<ck, cappuccino::thread_safe::no>>(a, replay_ops);
}
