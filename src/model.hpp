// Reference model ("boring" sequential specification) and per-property monitors.
// Everything here uses only public-API observations: the result of the call, size()/empty()/
// capacity() right after it, and a peek-scan of the whole key universe at the same clock reading.
#pragma once
#include "adapters.hpp"
#include "common.hpp"

#include <string>
#include <vector>

namespace vf
{
using PM = uint32_t;
constexpr PM P(int i)
{
    return 1u << i;
}
inline std::string pm_str(PM m)
{
    std::string s;
    for (int i = 1; i <= 20; i++)
        if (m & P(i))
        {
            char b[8];
            snprintf(b, sizeof b, "%sC%02d", s.empty() ? "" : "+", i);
            s += b;
        }
    return s.empty() ? "unattributed" : s;
}

struct Viol
{
    PM          props;
    std::string what;
    int         lost{0};   // > 0: this deviation is "live key <lost> disappeared" and nothing else
    int         rejkey{0}; // > 0: the C09 part of props comes from an earlier rejected insert on this key and
                           // must be confirmed against the history without that insert (see seqmc.cpp)
    int         updkey{0}; // > 0: the C09 part comes from "the last write of this key was an update": confirmed
                           // against the history in which that update is an erase + fresh insert instead
};

struct ME
{
    uint8_t present{0}; // the model expects lookups to find it while now < deadline
    uint8_t inE{0};     // expired and possibly still physically resident
    uint8_t  rej{0};     // C09 runs: a rejected insert hit this live entry since its last write
    uint64_t rejmask{0}; // ... at these history positions (not part of the state key)
    uint8_t  upd{0};     // C09 runs: the latest successful write of this entry was an update (TTL restart is C09's too)
    int16_t  updpos{-1}; // ... made by the single insert call at this history position (not part of the state key)
    int     wid{-1};
    int64_t deadline{INF_NS};
    int     uses{0};
    int64_t stamp{0};
    int     rec{0};
    int     ins{0};
};

struct Model
{
    ME      e[MAXK + 1];
    int64_t now{BASE_NS};
    int     ttl_ms{0};
    int     seq{0};
    uint8_t aged_ever{0};
    uint8_t devs{0};
    Obs     obs;
};

struct Knobs
{
    int  cmax{3};       // use-count cap (lfu/lfuda environment restriction)
    bool track_rej{false};
    int  depth{0};      // position of the operation being judged in its history
};

template<CK ck>
struct Spec
{
    static constexpr Traits T       = traits_of(ck);
    static constexpr bool   is_lfu  = (ck == CK::lfu || ck == CK::lfuda);
    static constexpr bool   is_lruk = (ck == CK::lru || ck == CK::tlru || ck == CK::utlru);
    static constexpr bool   has_ttl = T.ttl_cache || T.ttl_map;
    static constexpr bool   has_cap = T.has_capacity;

    static Model initial(const Config& g)
    {
        Model m;
        m.ttl_ms       = g.ttl_ms;
        m.obs.size     = 0;
        m.obs.empty    = true;
        m.obs.capacity = has_cap ? g.cap : -1;
        return m;
    }

    static bool live(const Model& m, int k) { return m.e[k].present && m.now < m.e[k].deadline; }

    static int64_t age_floor(int uses, float ratio) { return (int64_t)(size_t)(uses * ratio); }

    // apply lfuda aging to the model at an aging point; returns number aged
    static int do_age(Model& m, const Config& g)
    {
        int n = 0;
        for (int k = 1; k <= g.nkeys; k++)
        {
            ME& e = m.e[k];
            if (e.present && e.stamp + (int64_t)g.tick_ms * MS < m.now)
            {
                e.uses  = (int)age_floor(e.uses, g.ratio);
                e.stamp = m.now;
                n++;
                m.aged_ever = 1;
            }
        }
        return n;
    }

    // Canonical, address- and wid-free serialisation of the model for the state key.
    static std::string canon(const Model& m, const Config& g)
    {
        std::string s;
        char        b[96];
        // ranks for rec / ins
        auto rank = [&](int ME::*f, int k) {
            int r = 0;
            for (int j = 1; j <= g.nkeys; j++)
                if (m.e[j].present && m.e[j].*f < m.e[k].*f)
                    r++;
            return r;
        };
        for (int k = 1; k <= g.nkeys; k++)
        {
            const ME& e = m.e[k];
            if (!e.present && !e.inE)
            {
                s += "-;";
                continue;
            }
            if (!e.present)
            {
                s += "E;";
                continue;
            }
            s += "p";
            if (e.inE)
                s += "E";
            if (e.rej)
                s += "r";
            if (e.upd)
                s += "U";
            if constexpr (has_ttl)
            {
                snprintf(b, sizeof b, "d%lld", (long long)(e.deadline - m.now));
                s += b;
            }
            if constexpr (is_lfu)
            {
                snprintf(b, sizeof b, "u%d", e.uses);
                s += b;
            }
            if constexpr (ck == CK::lfuda)
            {
                int64_t age  = m.now - e.stamp;
                int64_t tick = (int64_t)g.tick_ms * MS;
                if (age > tick)
                    age = tick + 1;
                snprintf(b, sizeof b, "a%lld", (long long)age);
                s += b;
            }
            if constexpr (is_lruk || ck == CK::mru)
            {
                snprintf(b, sizeof b, "r%d", rank(&ME::rec, k));
                s += b;
            }
            if constexpr (ck == CK::fifo)
            {
                snprintf(b, sizeof b, "i%d", rank(&ME::ins, k));
                s += b;
            }
            s += ";";
        }
        snprintf(b, sizeof b, "t%d a%d v%d z%ld", m.ttl_ms, m.aged_ever, m.devs, m.obs.size);
        s += b;
        return s;
    }

    // -------------------------------------------------------------------------------------
    // One model step.  `m` is the base model (parent state, or for a range of n>=2 elements the
    // model after the range made of the first n-1 elements, taken from the same parent state).
    // `pr` is the result of that prefix range (nullptr for singles and for ranges of length <=1).
    // On return `m` is the post model; `vs` lists every clause that failed.
    // -------------------------------------------------------------------------------------
    static void step(
        Model&             m,
        const Config&      g,
        const Knobs&       kn,
        const Op&          op,
        const Result&      r,
        const Result*      pr,
        const Obs&         ob,
        const Scan&        sc,
        std::vector<Viol>& vs)
    {
        const int  U   = g.nkeys;
        const long cap = has_cap ? g.cap : -1;
        char       buf[256];
        auto       V = [&](PM p, const std::string& w) { vs.push_back(Viol{p, w}); };
        const PM   LOSE = P(3) | (has_ttl ? P(5) : 0);

        bool liveb[MAXK + 1];
        int  nlive = 0;
        for (int k = 1; k <= U; k++)
        {
            liveb[k] = live(m, k);
            nlive += liveb[k];
        }
        const long szb = m.obs.size;

        // expectations after the step
        int expect[MAXK + 1]; // 1 present, 0 absent, 2 either
        int ewid[MAXK + 1];
        PM  losetag[MAXK + 1];
        PM  phantag[MAXK + 1];
        bool rejtag[MAXK + 1] = {};
        bool updtag[MAXK + 1] = {};
        for (int k = 1; k <= U; k++)
        {
            expect[k]  = liveb[k] ? 1 : 0;
            ewid[k]    = m.e[k].wid;
            // (C09's "a rejected insert leaves the expiry unchanged" is attributed only at clock steps, where
            // the one thing that can make the entry vanish early or linger is a moved deadline - see Advance)
            losetag[k] = LOSE;
            phantag[k] = P(1) | (m.e[k].inE ? P(4) : 0);
        }
        bool is_api        = true;  // a public API call (as opposed to a clock step)
        bool clear_E_after = false; // clean_expired_values: E is emptied after the C02 bound was evaluated

        auto write_new = [&](int k, int w, int64_t dl) {
            ME& e     = m.e[k];
            e.upd     = 0;
            e.updpos  = -1;
            e.present = 1;
            e.inE     = 0;
            e.rej     = 0;
            e.rejmask = 0;
            e.wid     = w;
            e.deadline = dl;
            e.uses    = 1;
            e.stamp   = m.now;
            e.rec     = ++m.seq;
            e.ins     = m.seq;
        };
        auto write_upd = [&](int k, int w, int64_t dl) {
            ME& e      = m.e[k];
            e.upd      = (kn.track_rej && op.k == OpK::Insert) ? 1 : 0;
            e.updpos   = (int16_t)kn.depth;
            e.present  = 1;
            e.inE      = 0;
            e.rej      = 0;
            e.rejmask  = 0;
            e.wid      = w;
            e.deadline = dl;
            e.uses += 1;
            e.stamp = m.now;
            e.rec   = ++m.seq;
        };
        auto after_write_expect = [&](int k) {
            // a write whose deadline is not in the future is born expired
            if (m.now < m.e[k].deadline)
            {
                expect[k] = 1;
                ewid[k]   = m.e[k].wid;
            }
            else
            {
                expect[k]      = 0;
                m.e[k].present = 0;
                m.e[k].inE     = 1;
                phantag[k]     = P(1) | P(4);
            }
        };

        // index of the element this step models (last element of a range)
        const int li = (op.n > 0) ? op.n - 1 : 0;

        switch (op.k)
        {
            case OpK::Advance: {
                is_api = false;
                m.now += op.dt;
                if (op.dev)
                    m.devs++;
                for (int k = 1; k <= U; k++)
                {
                    ME& e = m.e[k];
                    if (e.present && m.now >= e.deadline)
                    {
                        e.present  = 0;
                        e.inE      = 1;
                        expect[k]  = 0;
                        // (an entry whose last write was an update and that is still served: the update did not
                        //  restart the TTL from the update time - C09 says "restarting any TTL")
                        phantag[k] = P(1) | P(4) | ((e.rej || e.upd) ? P(9) : 0);
                        rejtag[k]  = e.rej && !e.upd;
                        updtag[k]  = e.upd;
                    }
                    else if (e.present)
                    {
                        // time passing is the only thing that happened: a live entry that disappears now
                        // expired early (C05); retention across operations is C03's
                        losetag[k] = P(5) | ((e.rej || e.upd) ? P(9) : 0);
                        rejtag[k]  = e.rej && !e.upd;
                        updtag[k]  = e.upd;
                    }
                }
                break;
            }
            case OpK::Insert:
            case OpK::InsertRange:
            case OpK::InsertIt: {
                if (op.n == 0)
                {
                    if (r.n < 1 || r.v[0] != 0)
                        V(P(18) | P(9), "insert of an empty range reported " + r.str());
                    break;
                }
                int  k   = op.key[li];
                int  a   = op.allow;
                int  w   = op.wid[li];
                int  prev = pr ? pr->v[0] : 0;
                int  d   = (r.n >= 1 ? r.v[0] : -99) - prev;
                if (d != 0 && d != 1)
                {
                    snprintf(buf, sizeof buf, "insert count went from %d to %d for one more element", prev, r.v[0]);
                    V(P(9) | P(18), buf);
                    break;
                }
                bool    ok    = d == 1;
                int     ttlms = T.ttl_per_entry ? op.ttl[li] : m.ttl_ms;
                int64_t dl    = has_ttl ? m.now + (int64_t)ttlms * MS : INF_NS;
                bool    lv    = liveb[k];
                if (lv)
                {
                    if (a & 2)
                    {
                        if (!ok)
                            V(P(9), "update-capable insert of a live key was rejected");
                        else
                        {
                            write_upd(k, w, dl);
                            after_write_expect(k);
                            losetag[k] = P(9) | P(5);
                        }
                    }
                    else
                    {
                        if (ok)
                        {
                            // C09's deviation.  The call *reported* a successful write, so for every other
                            // property that write took place (C01: "most recent successful insert").
                            V(P(9), "allow::insert on a live key reported success");
                            write_upd(k, w, dl);
                            after_write_expect(k);
                            losetag[k] = P(9) | P(5);
                            break;
                        }
                        losetag[k] |= P(9);
                        if (kn.track_rej && !ok && op.k == OpK::Insert && kn.depth < 64)
                        {
                            m.e[k].rej = 1;
                            m.e[k].rejmask |= 1ull << kn.depth;
                        }
                    }
                }
                else
                {
                    bool maybeRes = m.e[k].inE;
                    if (a & 1)
                    {
                        if (!ok)
                            V(P(9), "insert-capable insert of a key with no live entry was rejected");
                        else
                        {
                            bool full = has_cap && szb >= cap;
                            if (full && !T.ttl_map)
                            {
                                int lost = 0, victim = -1;
                                for (int j = 1; j <= U; j++)
                                    if (j != k && liveb[j] && !sc.e[j].present)
                                    {
                                        lost++;
                                        victim = j;
                                    }
                                if (T.ttl_cache && nlive < cap)
                                {
                                    // an expired resident exists: no live entry may go
                                    if (lost == 1)
                                    {
                                        snprintf(
                                            buf,
                                            sizeof buf,
                                            "insert into a full cache holding an expired entry removed live key %d",
                                            victim);
                                        V(P(16), buf);
                                        expect[victim] = 2;
                                    }
                                    // lost >= 2 falls through to the generic loss check (C03|C05) plus C16
                                    else if (lost >= 2)
                                        for (int j = 1; j <= U; j++)
                                            losetag[j] |= P(16);
                                }
                                else
                                {
                                    // every resident is live: exactly one victim, chosen by the policy
                                    if (ck == CK::lfuda)
                                        do_age(m, g);
                                    if (lost == 0)
                                    {
                                        V(P(3), "insert of a new key into a full cache removed no resident entry");
                                    }
                                    else if (lost == 1)
                                    {
                                        expect[victim]      = 0;
                                        phantag[victim]     = P(3);
                                        PM         poltag   = 0;
                                        int        want     = -1;
                                        const char* polname = "";
                                        if constexpr (is_lruk)
                                        {
                                            poltag  = P(10);
                                            polname = "least recently used";
                                            for (int j = 1; j <= U; j++)
                                                if (liveb[j] && (want < 0 || m.e[j].rec < m.e[want].rec))
                                                    want = j;
                                        }
                                        else if constexpr (ck == CK::mru)
                                        {
                                            poltag  = P(13);
                                            polname = "most recently used";
                                            for (int j = 1; j <= U; j++)
                                                if (liveb[j] && (want < 0 || m.e[j].rec > m.e[want].rec))
                                                    want = j;
                                        }
                                        else if constexpr (ck == CK::fifo)
                                        {
                                            poltag  = P(12);
                                            polname = "earliest inserted";
                                            for (int j = 1; j <= U; j++)
                                                if (liveb[j] && (want < 0 || m.e[j].ins < m.e[want].ins))
                                                    want = j;
                                        }
                                        else if constexpr (is_lfu)
                                        {
                                            poltag  = (ck == CK::lfu) ? P(11) : (P(14) | (m.aged_ever ? 0 : P(11)));
                                            polname = "minimal use count";
                                            int mn  = 1 << 30;
                                            for (int j = 1; j <= U; j++)
                                                if (liveb[j] && m.e[j].uses < mn)
                                                    mn = m.e[j].uses;
                                            want = (m.e[victim].uses == mn) ? victim : -2;
                                        }
                                        else
                                        {
                                            want = victim; // rr: any prior resident
                                        }
                                        if (want != victim)
                                        {
                                            snprintf(
                                                buf,
                                                sizeof buf,
                                                "victim is key %d but the %s resident is %s%d",
                                                victim,
                                                polname,
                                                want == -2 ? "another key, min count < " : "key ",
                                                want == -2 ? m.e[victim].uses : want);
                                            V(poltag, buf);
                                        }
                                        m.e[victim].present = 0;
                                        m.e[victim].inE     = 0;
                                        m.e[victim].rej     = 0;
                                        m.e[victim].rejmask = 0;
                                        if (ob.size != cap)
                                            V(P(3) | P(2), "size() is not capacity() after an evicting insert");
                                    }
                                    // lost >= 2: generic loss check reports C03
                                }
                            }
                            if (T.ttl_cache && full && ob.size != cap)
                            {
                                // whether the key overwrote its own expired entry in place or took a new slot
                                // after exactly one removal, a full cache stays full
                                snprintf(buf, sizeof buf, "size() is %ld, not capacity() %ld, after an insert into a full cache", ob.size, cap);
                                V(P(3), buf);
                            }
                            write_new(k, w, dl);
                            after_write_expect(k);
                            losetag[k] = P(9) | P(5);
                        }
                    }
                    else
                    {
                        // update only, no live entry
                        if (maybeRes)
                        {
                            if (ok)
                            {
                                write_upd(k, w, dl);
                                m.e[k].uses = 1;
                                after_write_expect(k);
                                losetag[k] = P(9) | P(5);
                            }
                            else
                            {
                                m.e[k].inE = 0;
                                phantag[k] = P(9) | P(1);
                            }
                        }
                        else
                        {
                            if (ok)
                            {
                                V(P(9), "allow::update reported success for a key with no entry");
                                write_new(k, w, dl); // reported as written: adopted for the other properties
                                after_write_expect(k);
                                losetag[k] = P(9) | P(5);
                                break;
                            }
                            phantag[k] = P(9) | P(1);
                        }
                    }
                }
                break;
            }
            case OpK::Erase:
            case OpK::EraseRange:
            case OpK::EraseIt: {
                if (op.n == 0)
                {
                    if (r.n < 1 || r.v[0] != 0)
                        V(P(18), "erase of an empty range reported " + r.str());
                    break;
                }
                int k    = op.key[li];
                int prev = pr ? pr->v[0] : 0;
                int d    = (r.n >= 1 ? r.v[0] : -99) - prev;
                if (d != 0 && d != 1)
                {
                    V(P(18), "erase count not incremental");
                    break;
                }
                bool ok = d == 1;
                if (liveb[k])
                {
                    if (ok)
                    {
                        expect[k]      = 0;
                        phantag[k]     = P(1);
                        m.e[k].present = 0;
                        m.e[k].inE     = 0;
                        m.e[k].rej     = 0;
                        m.e[k].rejmask = 0;
                    }
                    else
                    {
                        V(0, "erase of a live key returned false");
                        expect[k] = 2;
                    }
                }
                else if (m.e[k].inE)
                {
                    // tlru/utlru: the expired entry may or may not still be resident: either result.
                    // ut_map/ut_set purge at the start of every erase, so the key is gone by then.
                    if (T.ttl_map && ok)
                        V(P(17), "erase of an expired key succeeded: the purge did not run first");
                    m.e[k].inE = 0;
                }
                else if (ok)
                {
                    V(0, "erase of an absent key returned true");
                }
                break;
            }
            case OpK::Find:
            case OpK::FindUC:
            case OpK::FindRange:
            case OpK::FindRangeFill:
            case OpK::FindIt:
            case OpK::FindFillIt: {
                bool rangeform = is_range(op.k);
                int  hit, wid, uc = -1;
                if (rangeform)
                {
                    if (r.n < 1 || r.v[0] != op.n)
                    {
                        snprintf(buf, sizeof buf, "range lookup of %d keys produced %d results", op.n, r.n ? r.v[0] : -1);
                        V(P(18), buf);
                        break;
                    }
                    if (op.n == 0)
                        break;
                    // earlier elements must agree with the prefix range
                    if (pr)
                        for (int i = 0; i < 3 * (op.n - 1); i++)
                            if (pr->v[1 + i] != r.v[1 + i])
                            {
                                V(P(18), "range lookup results differ from the same lookups in a shorter range");
                                break;
                            }
                    if (r.v[1 + 3 * li] != op.key[li])
                    {
                        V(P(18), "range lookup result is not in input order");
                        break;
                    }
                    hit = r.v[2 + 3 * li];
                    wid = r.v[3 + 3 * li];
                }
                else
                {
                    hit = r.v[0];
                    wid = r.v[1];
                    if (op.k == OpK::FindUC)
                        uc = r.v[2];
                }
                int  k     = op.key[li];
                bool touch = T.has_peek && !op.peek;
                if (liveb[k])
                {
                    if (!hit)
                    {
                        V(has_ttl ? P(5) : 0, "lookup of a live key missed");
                        expect[k] = 2;
                    }
                    else
                    {
                        if (!T.is_set && wid != (g_val_eq_mode ? k : m.e[k].wid))
                        {
                            snprintf(
                                buf, sizeof buf, "lookup of key %d returned write %d, latest write is %d", k, wid, m.e[k].wid);
                            V(P(1), buf);
                        }
                        if (touch)
                        {
                            m.e[k].rec = ++m.seq;
                            m.e[k].uses += 1;
                            m.e[k].stamp = m.now;
                        }
                        if (op.k == OpK::FindUC && uc != m.e[k].uses)
                        {
                            snprintf(
                                buf, sizeof buf, "find_with_use_count(key %d) reported %d, expected %d", k, uc, m.e[k].uses);
                            V(ck == CK::lfu ? P(11) : (P(14) | (m.aged_ever ? 0 : P(11))), buf);
                        }
                    }
                }
                else
                {
                    if (hit)
                    {
                        snprintf(buf, sizeof buf, "lookup returned key %d which has no live entry", k);
                        V(phantag[k], buf);
                        expect[k] = 2;
                    }
                    // tlru/utlru happen to reap an expired entry on lookup, but no property requires
                    // it, so the model keeps the key in E (a looser C02 bound, never a false alarm)
                }
                break;
            }
            case OpK::Clean: {
                long removed = szb - ob.size;
                if (r.n < 1 || r.v[0] != removed)
                {
                    snprintf(
                        buf,
                        sizeof buf,
                        "clean_expired_values returned %d but size() went from %ld to %ld",
                        r.n ? r.v[0] : -1,
                        szb,
                        ob.size);
                    V(P(17), buf);
                }
                if (ob.size != sc.count(U))
                {
                    snprintf(
                        buf,
                        sizeof buf,
                        "after clean_expired_values size() is %ld but %d keys are live",
                        ob.size,
                        sc.count(U));
                    V(P(17), buf);
                }
                for (int k = 1; k <= U; k++)
                    losetag[k] |= P(17);
                clear_E_after = true;
                break;
            }
            case OpK::DynAge: {
                int n = do_age(m, g);
                if (r.n < 1 || r.v[0] != n)
                {
                    snprintf(buf, sizeof buf, "dynamically_age returned %d, %d entries were idle longer than the tick", r.n ? r.v[0] : -1, n);
                    V(P(14), buf);
                }
                break;
            }
            case OpK::UpdateTtl:
                m.ttl_ms = op.ttl[0];
                break;
            case OpK::Clear:
                for (int k = 1; k <= U; k++)
                {
                    m.e[k].present = 0;
                    m.e[k].inE     = 0;
                    m.e[k].rej     = 0;
                    m.e[k].rejmask = 0;
                    expect[k]      = 0;
                    phantag[k]     = P(20) | P(1);
                }
                if (ob.size != 0 || !ob.empty)
                    V(P(20), "size() is not 0 after clear()");
                break;
            default:
                break;
        }

        // ---- generic comparison of the scan with the expectations --------------------------
        for (int k = 1; k <= U; k++)
        {
            const ScanEnt& se = sc.e[k];
            if (se.present)
            {
                if (expect[k] == 0)
                {
                    snprintf(buf, sizeof buf, "key %d is found but has no live entry in the model", k);
                    vs.push_back(Viol{phantag[k], buf, 0, (rejtag[k] && (phantag[k] & P(9))) ? k : 0, (updtag[k] && (phantag[k] & P(9))) ? k : 0});
                }
                else if (expect[k] == 1 && !T.is_set && se.wid != (g_val_eq_mode ? k : ewid[k]))
                {
                    snprintf(buf, sizeof buf, "key %d holds write %d, latest successful write is %d", k, se.wid, ewid[k]);
                    V(P(1) | ((losetag[k] & P(9)) ? P(9) : 0), buf);
                }
                if constexpr (is_lfu)
                {
                    if (expect[k] == 1 && se.uc != m.e[k].uses)
                    {
                        snprintf(buf, sizeof buf, "key %d has use count %d, expected %d", k, se.uc, m.e[k].uses);
                        V(ck == CK::lfu ? P(11) : (P(14) | (m.aged_ever ? 0 : P(11))), buf);
                    }
                }
            }
            else if (expect[k] == 1)
            {
                snprintf(buf, sizeof buf, "live key %d is no longer found", k);
                vs.push_back(Viol{losetag[k], buf, k, (rejtag[k] && (losetag[k] & P(9))) ? k : 0, (updtag[k] && (losetag[k] & P(9))) ? k : 0});
            }
        }

        // ---- C02: observers -----------------------------------------------------------------
        {
            int nscan = sc.count(U);
            if (has_cap && ob.capacity != cap)
            {
                snprintf(buf, sizeof buf, "capacity() is %ld, constructed with %ld", ob.capacity, cap);
                V(P(2), buf);
            }
            if (ob.size < 0 || (has_cap && ob.size > cap))
            {
                snprintf(buf, sizeof buf, "size() %ld outside [0, capacity %ld]", ob.size, cap);
                V(P(2), buf);
            }
            if (ob.empty != (ob.size == 0))
                V(P(2), "empty() disagrees with size()==0");
            if (!has_ttl)
            {
                if (ob.size != nscan)
                {
                    snprintf(buf, sizeof buf, "size() is %ld but %d keys are found", ob.size, nscan);
                    V(P(2), buf);
                }
            }
            else if (T.ttl_cache)
            {
                int nE = 0;
                for (int k = 1; k <= U; k++)
                    nE += m.e[k].inE;
                // a key the model holds live but that is not found at this very step is a retention / TTL
                // deviation reported above (C03/C05); physically it may well be an expired entry that is
                // still resident, so it must not also show up as a size() complaint
                for (int k = 1; k <= U; k++)
                    if (expect[k] == 1 && !sc.e[k].present)
                        nE++;
                if (ob.size < nscan || ob.size > nscan + nE)
                {
                    snprintf(
                        buf,
                        sizeof buf,
                        "size() is %ld with %d live keys and at most %d expired entries not yet removed",
                        ob.size,
                        nscan,
                        nE);
                    V(P(2), buf);
                }
            }
            else if (T.ttl_map && is_api && g.ttl_ms >= 1)
            {
                // "live" is the model's notion (written, not undone, deadline in the future) - not "found":
                // an expired entry that is still served (C04's business) is not a live key
                int nlive_model = 0;
                for (int k = 1; k <= U; k++)
                    nlive_model += (m.e[k].present && m.now < m.e[k].deadline);
                if (ob.size != nlive_model)
                {
                    snprintf(buf, sizeof buf, "size() is %ld right after the call but %d keys are live", ob.size, nlive_model);
                    V(P(2) | P(17), buf);
                }
            }
        }
        if ((T.ttl_map && is_api) || clear_E_after)
            for (int k = 1; k <= U; k++)
                m.e[k].inE = 0;
        m.obs = ob;
    }
};

} // namespace vf
