/* Serialising scheduler for the E2 engine (schedmc).
 *
 * Real pthreads, exactly one runnable at a time.  Hand-off is by raw futex on per-thread words.  This
 * translation unit is compiled WITHOUT any sanitizer instrumentation and keeps all scheduling and
 * exploration state in plain C arrays, so ThreadSanitizer neither sees the hand-offs (they create no
 * happens-before edges: the race detector stays sighted) nor the explorer's bookkeeping.
 *
 * Schedule points:
 *   SCH_INV   immediately before an operation is invoked
 *   SCH_LOCK  inside the interposed pthread_mutex_lock, before acquisition (ownership modelled here)
 *   SCH_UNLOCK (optional, with the allocation points) right after the last lock was released inside an operation
 * Unlock re-enables waiters but is not a choice point.
 */
#define _GNU_SOURCE
#include <dlfcn.h>
#include <errno.h>
#include <linux/futex.h>
#include <pthread.h>
#include <stdint.h>
#include <stdio.h>
#include <stdlib.h>
#include <string.h>
#include <sched.h>
#include <sys/syscall.h>
#include <unistd.h>

#include "vsched.h"

static int   (*real_lock)(pthread_mutex_t*);
static int   (*real_trylock)(pthread_mutex_t*);
static int   (*real_unlock)(pthread_mutex_t*);
static volatile int resolving;

static void resolve(void)
{
    if (real_lock)
        return;
    resolving    = 1;
    real_trylock = (int (*)(pthread_mutex_t*))dlsym(RTLD_NEXT, "pthread_mutex_trylock");
    real_unlock  = (int (*)(pthread_mutex_t*))dlsym(RTLD_NEXT, "pthread_mutex_unlock");
    real_lock    = (int (*)(pthread_mutex_t*))dlsym(RTLD_NEXT, "pthread_mutex_lock");
    resolving    = 0;
    if (!real_lock || !real_unlock)
    {
        static const char m[] = "sched: cannot resolve pthread_mutex_lock\n";
        (void)!write(2, m, sizeof m - 1);
        _exit(3);
    }
}

/* ---- state (only ever touched by the one running thread, or by main while workers are parked) ---- */
enum
{
    ST_NONE = 0,
    ST_PARKED,   /* waiting at a schedule point */
    ST_RUNNING,
    ST_DONE
};
static int   g_n;                 /* number of worker threads */
static int   g_active;            /* scheduling in force */
static int   g_status[SCH_MAXT];
static int   g_kind[SCH_MAXT];    /* pending point kind */
static void* g_want[SCH_MAXT];    /* mutex wanted at a SCH_LOCK point */
static int   g_turn[SCH_MAXT + 1]; /* futex words; [SCH_MAXT] is main's */
#define MAXM 8
static void* g_mtx[MAXM];
static int   g_owner[MAXM];
static int   g_depth[MAXM]; /* recursion depth (recursive mutexes may be re-locked by their owner) */
static int   g_nm;
static __thread int t_tid = -1;
static __thread int t_rwheld; /* reader/writer locks held by this thread (see below) */

/* exploration trace */
static int g_prefix[SCH_MAXPTS];
static int g_prefix_len;
static int g_np;                    /* points recorded */
static int g_pt_nen[SCH_MAXPTS];    /* number of enabled threads at the point */
static int g_pt_choice[SCH_MAXPTS]; /* index chosen in canonical order */
static int g_pt_cur_en[SCH_MAXPTS]; /* was the arriving thread itself enabled (switching away = preemption) */
static int g_pt_tid[SCH_MAXPTS];    /* thread chosen */
static int g_pt_en[SCH_MAXPTS][SCH_MAXT];
static int g_deadlock;
static int g_diverged;
static int g_overflow;
static int g_step;                  /* logical time */
/* op log */
static int g_inv[SCH_MAXT][SCH_MAXOPS], g_ret[SCH_MAXT][SCH_MAXOPS];
static int g_lockpts[SCH_MAXT][SCH_MAXOPS];
static int g_curop[SCH_MAXT];

static void fwait(int* w)
{
    while (__atomic_load_n(w, __ATOMIC_ACQUIRE) == 0)
        syscall(SYS_futex, w, FUTEX_WAIT, 0, NULL, NULL, 0);
    __atomic_store_n(w, 0, __ATOMIC_RELEASE);
}
static void fwake(int* w)
{
    __atomic_store_n(w, 1, __ATOMIC_RELEASE);
    syscall(SYS_futex, w, FUTEX_WAKE, 1, NULL, NULL, 0);
}

/* reader/writer locks: modelled like the mutexes (acquisition is a schedule point; a thread whose request
 * cannot be granted is disabled), so that threads may be preempted while they hold the SHARED side */
#define MAXRW 4
static void* g_rw[MAXRW];
static int   g_rw_writer[MAXRW];          /* tid of the exclusive holder or -1 */
static int   g_rw_readers[MAXRW][SCH_MAXT]; /* shared hold count per thread */
static int   g_nrw;
static int   rw_index(void* l, int create)
{
    for (int i = 0; i < g_nrw; i++)
        if (g_rw[i] == l)
            return i;
    if (!create || g_nrw >= MAXRW)
        return -1;
    g_rw[g_nrw]        = l;
    g_rw_writer[g_nrw] = -1;
    memset(g_rw_readers[g_nrw], 0, sizeof g_rw_readers[g_nrw]);
    return g_nrw++;
}
static int rw_grantable(void* l, int tid, int exclusive)
{
    int i = rw_index(l, 0);
    if (i < 0)
        return 1;
    if (g_rw_writer[i] >= 0)
        return 0;
    if (exclusive)
        for (int t = 0; t < SCH_MAXT; t++)
            if (g_rw_readers[i][t] > 0 && t != tid)
                return 0;
    if (exclusive && g_rw_readers[i][tid] > 0)
        return 0; /* upgrade = self-deadlock */
    return 1;
}
static int holds_exclusive_rw(int tid)
{
    for (int i = 0; i < g_nrw; i++)
        if (g_rw_writer[i] == tid)
            return 1;
    return 0;
}

static int owner_of(void* m)
{
    for (int i = 0; i < g_nm; i++)
        if (g_mtx[i] == m)
            return g_owner[i];
    return -1;
}
static int is_recursive(void* m)
{
    return (((pthread_mutex_t*)m)->__data.__kind & 3) == PTHREAD_MUTEX_RECURSIVE_NP;
}
static void acquire(void* m, int tid)
{
    for (int i = 0; i < g_nm; i++)
        if (g_mtx[i] == m)
        {
            if (g_owner[i] == tid)
                g_depth[i]++;
            else
            {
                g_owner[i] = tid;
                g_depth[i] = 1;
            }
            return;
        }
    if (g_nm < MAXM)
    {
        g_mtx[g_nm]   = m;
        g_owner[g_nm] = tid;
        g_depth[g_nm] = 1;
        g_nm++;
    }
    else
        g_overflow = 1;
}
static void release(void* m)
{
    for (int i = 0; i < g_nm; i++)
        if (g_mtx[i] == m)
        {
            if (g_depth[i] > 1)
                g_depth[i]--;
            else
            {
                g_owner[i] = -1;
                g_depth[i] = 0;
            }
            return;
        }
}

static int enabled(int t)
{
    if (g_status[t] != ST_PARKED)
        return 0;
    if (g_kind[t] == SCH_LOCK)
    {
        int o = owner_of(g_want[t]);
        if (o >= 0 && !(o == t && is_recursive(g_want[t])))
            return 0; /* held by another thread, or by itself on a non-recursive mutex: self-deadlock */
    }
    if (g_kind[t] == SCH_RDLOCK && !rw_grantable(g_want[t], t, 0))
        return 0;
    if (g_kind[t] == SCH_WRLOCK && !rw_grantable(g_want[t], t, 1))
        return 0;
    return 1;
}

/* Decide who runs next.  `cur` is the arriving thread (parked now) or -1 (start / a thread ended).
 * Returns the chosen thread or -1 if none is enabled. */
static int decide(int cur)
{
    int en[SCH_MAXT], nen = 0;
    int cur_en = (cur >= 0 && enabled(cur));
    if (cur_en)
        en[nen++] = cur;
    for (int t = 0; t < g_n; t++)
        if (t != cur && enabled(t))
            en[nen++] = t;
    if (nen == 0)
        return -1;
    int choice = 0;
    if (g_np < g_prefix_len)
    {
        choice = g_prefix[g_np];
        if (choice >= nen)
        {
            g_diverged = 1;
            choice     = 0;
        }
    }
    if (g_np < SCH_MAXPTS)
    {
        g_pt_nen[g_np]    = nen;
        g_pt_choice[g_np] = choice;
        g_pt_cur_en[g_np] = cur_en;
        g_pt_tid[g_np]    = en[choice];
        for (int i = 0; i < SCH_MAXT; i++)
            g_pt_en[g_np][i] = i < nen ? en[i] : -1;
        g_np++;
    }
    else
        g_overflow = 1;
    return en[choice];
}

static void all_done_or_deadlock(void)
{
    int alldone = 1;
    for (int t = 0; t < g_n; t++)
        if (g_status[t] != ST_DONE)
            alldone = 0;
    if (!alldone)
        g_deadlock = 1;
    fwake(&g_turn[SCH_MAXT]);
}

/* the running thread parks at a point and hands the processor to the chosen thread */
static void point(int kind, void* m)
{
    int me       = t_tid;
    g_status[me] = ST_PARKED;
    g_kind[me]   = kind;
    g_want[me]   = m;
    g_step++;
    int nx = decide(me);
    if (nx < 0)
    {
        /* nobody can run (we are blocked on a held mutex and so is everyone else) */
        all_done_or_deadlock();
        fwait(&g_turn[me]); /* never returns in a deadlock: main reports and exits */
    }
    else if (nx != me)
    {
        fwake(&g_turn[nx]);
        fwait(&g_turn[me]);
    }
    g_status[me] = ST_RUNNING;
    if (kind == SCH_RDLOCK || kind == SCH_WRLOCK)
    {
        int i = rw_index(m, 1);
        if (i >= 0)
        {
            if (kind == SCH_WRLOCK)
                g_rw_writer[i] = me;
            else
                g_rw_readers[i][me]++;
        }
        else
            g_overflow = 1;
        if (g_curop[me] >= 0 && g_curop[me] < SCH_MAXOPS)
            g_lockpts[me][g_curop[me]]++;
    }
    if (kind == SCH_LOCK)
    {
        acquire(m, me);
        if (g_curop[me] >= 0 && g_curop[me] < SCH_MAXOPS)
            g_lockpts[me][g_curop[me]]++;
    }
}

/* ---- API used by the C++ side ------------------------------------------------------------------ */
void sch_reset(int nthreads, const int* prefix, int prefix_len)
{
    resolve();
    g_n = nthreads;
    memset(g_status, 0, sizeof g_status);
    memset(g_turn, 0, sizeof g_turn);
    g_nm  = 0;
    g_nrw = 0;
    g_np  = 0;
    g_deadlock = g_diverged = g_overflow = 0;
    g_step                               = 0;
    g_prefix_len                         = prefix_len < SCH_MAXPTS ? prefix_len : SCH_MAXPTS;
    for (int i = 0; i < g_prefix_len; i++)
        g_prefix[i] = prefix[i];
    memset(g_inv, -1, sizeof g_inv);
    memset(g_ret, -1, sizeof g_ret);
    memset(g_lockpts, 0, sizeof g_lockpts);
    for (int t = 0; t < SCH_MAXT; t++)
        g_curop[t] = -1;
}

/* worker: first call; parks until scheduled (this is the SCH_INV point of its first operation) */
void sch_thread_begin(int tid)
{
    t_tid         = tid;
    g_kind[tid]   = SCH_INV;
    g_want[tid]   = NULL;
    __atomic_store_n(&g_status[tid], ST_PARKED, __ATOMIC_RELEASE);
    fwait(&g_turn[tid]);
    g_status[tid] = ST_RUNNING;
}

void sch_op_begin(int opidx, int first)
{
    int me = t_tid;
    if (!first)
        point(SCH_INV, NULL);
    g_curop[me] = opidx;
    if (opidx < SCH_MAXOPS)
        g_inv[me][opidx] = g_step++;
}
void sch_op_end(int opidx)
{
    int me = t_tid;
    if (opidx < SCH_MAXOPS)
        g_ret[me][opidx] = g_step++;
    g_curop[me] = -1;
}

void sch_thread_end(void)
{
    int me       = t_tid;
    g_status[me] = ST_DONE;
    t_tid        = -1;
    int nx       = decide(-1);
    if (nx < 0)
        all_done_or_deadlock();
    else
        fwake(&g_turn[nx]);
}

/* main: wait until every worker is parked at its first point, then run the schedule to completion.
 * returns 0 ok, 1 deadlock */
int sch_run(void)
{
    for (int t = 0; t < g_n; t++)
        while (__atomic_load_n(&g_status[t], __ATOMIC_ACQUIRE) != ST_PARKED)
            sched_yield();
    g_active = 1;
    int nx   = decide(-1);
    if (nx < 0)
    {
        g_active = 0;
        return g_n ? 1 : 0;
    }
    fwake(&g_turn[nx]);
    fwait(&g_turn[SCH_MAXT]);
    g_active = 0;
    return g_deadlock;
}

int sch_npoints(void) { return g_np; }
int sch_point_nen(int i) { return g_pt_nen[i]; }
int sch_point_choice(int i) { return g_pt_choice[i]; }
int sch_point_cur_enabled(int i) { return g_pt_cur_en[i]; }
int sch_point_tid(int i) { return g_pt_tid[i]; }
int sch_diverged(void) { return g_diverged; }
int sch_overflow(void) { return g_overflow; }
int sch_inv(int tid, int op) { return g_inv[tid][op]; }
int sch_ret(int tid, int op) { return g_ret[tid][op]; }
int sch_lockpts(int tid, int op) { return g_lockpts[tid][op]; }
int sch_tid(void) { return t_tid; }

/* Allocation points: a schedule point at a heap allocation made by a worker while it is inside an
 * operation and holds no mutex.  Code that (wrongly) runs without the lock has no synchronisation
 * operation for the explorer to switch at; its allocations (value copies, result vectors) give the
 * explorer a foothold inside it. */
static int g_alloc_on;
void sch_alloc_points(int on) { g_alloc_on = on; }
static int holds_any(int tid)
{
    for (int i = 0; i < g_nm; i++)
        if (g_owner[i] == tid)
            return 1;
    return 0;
}
void sch_alloc_point(void)
{
    if (!g_alloc_on || !g_active || t_tid < 0)
        return;
    int me = t_tid;
    if (g_status[me] != ST_RUNNING || g_curop[me] < 0)
        return;
    /* mode 2: also inside critical sections - the other threads block at their lock points (not enabled),
     * so only code that (wrongly) does not take the lock, e.g. a lock-free observer, runs against the
     * half-applied operation */
    if (g_alloc_on < 2 && (holds_any(me) || holds_exclusive_rw(me)))
        return;
    point(SCH_ALLOC, NULL);
}

/* After-unlock points (same switch as the allocation points): a schedule point right after a worker released
 * its last lock inside an operation.  Code that keeps working on shared state after the unlock (copies a
 * value through a pointer obtained under the lock, updates a counter) gets interleaved there. */
static void unlock_point(void)
{
    if (!g_alloc_on || !g_active || t_tid < 0)
        return;
    int me = t_tid;
    if (g_status[me] != ST_RUNNING || g_curop[me] < 0 || holds_any(me) || holds_exclusive_rw(me) || t_rwheld > 0)
        return;
    point(SCH_UNLOCK, NULL);
}

/* ---- reader/writer locks: not modelled as schedule points (a thread never parks while it holds one, so
 * they can never block under the serialising scheduler); we only remember that one is held so that no
 * allocation point fires inside such a critical section. ------------------------------------------- */
static int (*real_rdlock)(pthread_rwlock_t*);
static int (*real_wrlock)(pthread_rwlock_t*);
static int (*real_tryrdlock)(pthread_rwlock_t*);
static int (*real_trywrlock)(pthread_rwlock_t*);
static int (*real_rwunlock)(pthread_rwlock_t*);
static void resolve_rw(void)
{
    if (real_rwunlock)
        return;
    real_rdlock    = (int (*)(pthread_rwlock_t*))dlsym(RTLD_NEXT, "pthread_rwlock_rdlock");
    real_wrlock    = (int (*)(pthread_rwlock_t*))dlsym(RTLD_NEXT, "pthread_rwlock_wrlock");
    real_tryrdlock = (int (*)(pthread_rwlock_t*))dlsym(RTLD_NEXT, "pthread_rwlock_tryrdlock");
    real_trywrlock = (int (*)(pthread_rwlock_t*))dlsym(RTLD_NEXT, "pthread_rwlock_trywrlock");
    real_rwunlock  = (int (*)(pthread_rwlock_t*))dlsym(RTLD_NEXT, "pthread_rwlock_unlock");
}
static void rw_release(void* l, int tid)
{
    int i = rw_index(l, 0);
    if (i < 0)
        return;
    if (g_rw_writer[i] == tid)
        g_rw_writer[i] = -1;
    else if (g_rw_readers[i][tid] > 0)
        g_rw_readers[i][tid]--;
}
int pthread_rwlock_rdlock(pthread_rwlock_t* l)
{
    resolve_rw();
    if (g_active && t_tid >= 0)
        point(SCH_RDLOCK, l);
    int r = real_rdlock(l);
    if (r == 0)
        t_rwheld++;
    return r;
}
int pthread_rwlock_wrlock(pthread_rwlock_t* l)
{
    resolve_rw();
    if (g_active && t_tid >= 0)
        point(SCH_WRLOCK, l);
    int r = real_wrlock(l);
    if (r == 0)
        t_rwheld++;
    return r;
}
int pthread_rwlock_tryrdlock(pthread_rwlock_t* l)
{
    resolve_rw();
    if (g_active && t_tid >= 0)
    {
        if (!rw_grantable(l, t_tid, 0))
            return EBUSY;
        int i = rw_index(l, 1);
        if (i >= 0)
            g_rw_readers[i][t_tid]++;
    }
    int r = real_tryrdlock(l);
    if (r == 0)
        t_rwheld++;
    return r;
}
int pthread_rwlock_trywrlock(pthread_rwlock_t* l)
{
    resolve_rw();
    if (g_active && t_tid >= 0)
    {
        if (!rw_grantable(l, t_tid, 1))
            return EBUSY;
        int i = rw_index(l, 1);
        if (i >= 0)
            g_rw_writer[i] = t_tid;
    }
    int r = real_trywrlock(l);
    if (r == 0)
        t_rwheld++;
    return r;
}
int pthread_rwlock_unlock(pthread_rwlock_t* l)
{
    resolve_rw();
    if (g_active && t_tid >= 0)
        rw_release(l, t_tid);
    if (t_rwheld > 0)
        t_rwheld--;
    int r = real_rwunlock(l);
    unlock_point();
    return r;
}

/* ---- interposed lock operations ------------------------------------------------------------------ */
int pthread_mutex_lock(pthread_mutex_t* m)
{
    if (!real_lock)
    {
        if (resolving)
            return 0; /* dlsym in progress on this (single) thread: nothing to protect yet */
        resolve();
    }
    if (g_active && t_tid >= 0)
        point(SCH_LOCK, m);
    return real_lock(m);
}
int pthread_mutex_trylock(pthread_mutex_t* m)
{
    if (!real_lock)
    {
        if (resolving)
            return 0;
        resolve();
    }
    if (g_active && t_tid >= 0)
    {
        int o = owner_of(m);
        if (o >= 0 && !(o == t_tid && is_recursive(m)))
            return EBUSY;
        acquire(m, t_tid);
    }
    return real_trylock(m);
}
int pthread_mutex_unlock(pthread_mutex_t* m)
{
    if (!real_lock)
    {
        if (resolving)
            return 0;
        resolve();
    }
    if (g_active && t_tid >= 0)
        release(m);
    int r = real_unlock(m);
    unlock_point();
    return r;
}
