// Shared harness types for the libcappuccino model-checking engines.
// Virtual clock, key/value types, operation encoding.
#pragma once
#include <atomic>
#include <chrono>
#include <cstdint>
#include <cstdio>
#include <cstdlib>
#include <cstring>
#include <functional>
#include <string>
#include <vector>

namespace vf
{
// ---------------------------------------------------------------------------------------------
// Virtual clock.  std::chrono::steady_clock::now() is replaced at link time (see clock.inc) and
// returns this value.  thread_local so independent explorations can run in worker threads.
// ---------------------------------------------------------------------------------------------
#ifdef VF_GLOBAL_CLOCK
// E2: one process-wide clock; atomic because in "clocked" programs a worker thread ticks it while
// others read it (relaxed is enough: the harness never relies on it for ordering)
extern std::atomic<int64_t> g_now_ns;
#else
extern thread_local int64_t g_now_ns;
#endif
constexpr int64_t MS      = 1000000;
constexpr int64_t BASE_NS = 1000 * MS; // every run starts at t = 1 s so that subtraction never underflows
constexpr int64_t INF_NS  = INT64_MAX / 4;

// hash mode: 0 identity, 1 all keys collide in one bucket
extern int g_hash_mode;
// value equality mode: 0 = two values are == iff they come from the same write (unique write ids);
// 1 = every value ever written under the same key is == ("updated with an equal value" histories)
extern int g_val_eq_mode;

struct Key
{
    int  v{0};
    bool operator==(const Key& o) const { return v == o.v; }
    bool operator!=(const Key& o) const { return v != o.v; }
    bool operator<(const Key& o) const { return v < o.v; }
};

// ---------------------------------------------------------------------------------------------
// Value type: heap-owning, instance-counting, carries the write id of the insert that made it.
// ---------------------------------------------------------------------------------------------
struct ValStats
{
    long live{0};
    long bad_destroy{0}; // destructor ran on an object that was not alive (double destroy / garbage)
    long bad_use{0};     // copy/move/read from a dead object
};
extern thread_local ValStats g_vs;

struct Val
{
    static constexpr uint32_t ALIVE = 0xA11CE5u;
    static constexpr uint32_t DEAD  = 0xDEADDEADu;
    int*     p{nullptr};
    int      pl{-1}; // payload: the key the harness wrote this value under
    uint32_t canary{ALIVE};

    Val() { ++g_vs.live; }
    Val(int wid, int key) : p(new int(wid)), pl(key) { ++g_vs.live; }
    Val(const Val& o) : p(nullptr), pl(o.pl)
    {
        if (o.canary != ALIVE)
            ++g_vs.bad_use;
        if (o.p)
            p = new int(*o.p);
        ++g_vs.live;
    }
    Val(Val&& o) noexcept : p(o.p), pl(o.pl)
    {
        if (o.canary != ALIVE)
            ++g_vs.bad_use;
        o.p = nullptr;
        ++g_vs.live;
    }
    Val& operator=(const Val& o)
    {
        if (o.canary != ALIVE || canary != ALIVE)
            ++g_vs.bad_use;
        if (this != &o)
        {
            int* np = o.p ? new int(*o.p) : nullptr;
            delete p;
            p  = np;
            pl = o.pl;
        }
        return *this;
    }
    Val& operator=(Val&& o) noexcept
    {
        if (o.canary != ALIVE || canary != ALIVE)
            ++g_vs.bad_use;
        if (this != &o)
        {
            delete p;
            p   = o.p;
            pl  = o.pl;
            o.p = nullptr;
        }
        return *this;
    }
    ~Val()
    {
        if (canary != ALIVE)
            ++g_vs.bad_destroy;
        canary = DEAD;
        delete p;
        p = nullptr;
        --g_vs.live;
    }
    int wid() const
    {
        if (canary != ALIVE)
            ++g_vs.bad_use;
        return p ? *p : -1;
    }
    // what the oracle reads from a returned value: the write id, or in equal-values mode the payload
    int id() const { return g_val_eq_mode ? (p ? pl : -1) : wid(); }
    // Users may compare values (see g_val_eq_mode).
    bool operator==(const Val& o) const { return g_val_eq_mode ? pl == o.pl : wid() == o.wid(); }
    bool operator!=(const Val& o) const { return !(*this == o); }
};

// ---------------------------------------------------------------------------------------------
// Operations.
// ---------------------------------------------------------------------------------------------
enum class OpK : uint8_t
{
    Insert = 0,
    Erase,
    Find,
    FindUC,        // find_with_use_count (lfu, lfuda)
    InsertRange,   // insert_range(container)
    EraseRange,    // erase_range(container)
    FindRange,     // find_range(container)
    FindRangeFill, // find_range_fill(container)
    InsertIt,      // fifo: insert(begin,end)
    EraseIt,       // fifo: erase(begin,end)
    FindIt,        // fifo: find(begin,end,distance)
    FindFillIt,    // fifo: find_range_fill(begin,end)
    Clean,         // clean_expired_values
    DynAge,        // dynamically_age
    UpdateTtl,     // update_ttl
    Clear,         // clear
    Advance,       // virtual clock += dt (environment transition)
    Size,          // observers (E2 only)
    Empty,
    Capacity,
    NKINDS
};

constexpr int MAXR = 3; // max range length

struct Op
{
    OpK     k{OpK::Insert};
    uint8_t n{0};       // number of keys (1 for single ops, 0..MAXR for ranges)
    uint8_t allow{3};   // 1 insert, 2 update, 3 insert_or_update
    uint8_t peek{0};    // 1 = peek
    uint8_t rngq{0};    // rr: generator quantile forced for this call
    uint8_t dev{0};     // 1 = this Advance is a sub-millisecond deviation (costs budget)
    int16_t key[MAXR]{0, 0, 0};
    int64_t ttl_big{0}; // != 0: tlru single insert uses this ttl (ms) instead of ttl[0] (mass scripts; not serialised)
    int16_t span{0};    // > 0: a long range over the keys 1..span (key[] unused; wid[0]+i, ttl[0] per element)
    int8_t  ttl[MAXR]{0, 0, 0}; // ms; tlru per element; UpdateTtl: ttl[0]
    int32_t wid[MAXR]{0, 0, 0}; // write ids (assigned by the engine; not part of the state key)
    int64_t dt{0};              // Advance: nanoseconds
};

inline bool is_range(OpK k)
{
    return k >= OpK::InsertRange && k <= OpK::FindFillIt;
}
inline bool is_insert(OpK k)
{
    return k == OpK::Insert || k == OpK::InsertRange || k == OpK::InsertIt;
}
inline bool is_erase(OpK k)
{
    return k == OpK::Erase || k == OpK::EraseRange || k == OpK::EraseIt;
}
inline bool is_find(OpK k)
{
    return k == OpK::Find || k == OpK::FindUC || k == OpK::FindRange || k == OpK::FindRangeFill || k == OpK::FindIt ||
           k == OpK::FindFillIt;
}

inline const char* opk_name(OpK k)
{
    static const char* n[] = {"insert",     "erase",        "find",       "find_with_use_count",
                              "insert_range", "erase_range", "find_range", "find_range_fill",
                              "insert_it",  "erase_it",     "find_it",    "find_range_fill_it",
                              "clean_expired_values", "dynamically_age", "update_ttl", "clear",
                              "advance",    "size",         "empty",      "capacity"};
    return n[(int)k];
}

inline std::string op_str(const Op& o)
{
    char        b[256];
    std::string s = opk_name(o.k);
    auto        al = [&]() { return o.allow == 1 ? "insert" : o.allow == 2 ? "update" : "insert_or_update"; };
    switch (o.k)
    {
        case OpK::Advance:
            snprintf(b, sizeof b, "(%lldns)", (long long)o.dt);
            return s + b;
        case OpK::UpdateTtl:
            snprintf(b, sizeof b, "(%dms)", o.ttl[0]);
            return s + b;
        case OpK::Clean:
        case OpK::DynAge:
        case OpK::Clear:
        case OpK::Size:
        case OpK::Empty:
        case OpK::Capacity:
            return s + "()";
        default:
            break;
    }
    s += "(";
    if (is_range(o.k) && o.span > 0)
    {
        snprintf(b, sizeof b, "[k1..k%d]", (int)o.span);
        s += b;
        if (is_insert(o.k))
            s += std::string(",allow=") + al();
        if (is_find(o.k) && o.peek)
            s += ",peek";
        return s + ")";
    }
    if (is_range(o.k))
        s += "[";
    for (int i = 0; i < o.n; i++)
    {
        if (i)
            s += ",";
        if (is_insert(o.k))
            snprintf(b, sizeof b, "k%d:w%d/ttl%d", o.key[i], o.wid[i], o.ttl[i]);
        else
            snprintf(b, sizeof b, "k%d", o.key[i]);
        s += b;
    }
    if (is_range(o.k))
        s += "]";
    if (is_insert(o.k))
    {
        s += ",allow=";
        s += al();
        if (o.rngq)
        {
            snprintf(b, sizeof b, ",rngq=%d", o.rngq);
            s += b;
        }
    }
    if (is_find(o.k))
        s += o.peek ? ",peek" : "";
    s += ")";
    return s;
}

// Serialise / parse an op for replay files: space separated integers.
inline std::string op_ser(const Op& o)
{
    char b[256];
    snprintf(
        b,
        sizeof b,
        "%d %d %d %d %d %d %d %d %d %d %d %d %d %d %d %lld %d",
        (int)o.k,
        o.n,
        o.allow,
        o.peek,
        o.rngq,
        o.dev,
        o.key[0],
        o.key[1],
        o.key[2],
        o.ttl[0],
        o.ttl[1],
        o.ttl[2],
        o.wid[0],
        o.wid[1],
        o.wid[2],
        (long long)o.dt,
        (int)o.span);
    return b;
}
inline bool op_parse(const char* s, Op& o)
{
    int       a[15];
    long long dt;
    int       span = 0;
    int       r = sscanf(
        s,
        "%d %d %d %d %d %d %d %d %d %d %d %d %d %d %d %lld %d",
        &a[0],
        &a[1],
        &a[2],
        &a[3],
        &a[4],
        &a[5],
        &a[6],
        &a[7],
        &a[8],
        &a[9],
        &a[10],
        &a[11],
        &a[12],
        &a[13],
        &a[14],
        &dt,
        &span);
    if (r < 16)
        return false;
    o.span  = (int16_t)span;
    o.k     = (OpK)a[0];
    o.n     = a[1];
    o.allow = a[2];
    o.peek  = a[3];
    o.rngq  = a[4];
    o.dev   = a[5];
    for (int i = 0; i < 3; i++)
    {
        o.key[i] = a[6 + i];
        o.ttl[i] = a[9 + i];
        o.wid[i] = a[12 + i];
    }
    o.dt = dt;
    return true;
}

// Result of one operation: a flat vector of small integers so runs can be compared structurally.
struct Result
{
    int n{0};
    int v[4 * MAXR + 2]{};
    void push(int x) { v[n++] = x; }
    bool operator==(const Result& o) const { return n == o.n && memcmp(v, o.v, n * sizeof(int)) == 0; }
    bool operator!=(const Result& o) const { return !(*this == o); }
    std::string str() const
    {
        std::string s = "[";
        for (int i = 0; i < n; i++)
        {
            if (i)
                s += ",";
            s += std::to_string(v[i]);
        }
        return s + "]";
    }
};

struct Obs
{
    long size{0};
    bool empty{true};
    long capacity{-1}; // -1 when the container has none (ut_map, ut_set)
};

inline bool g_dump_free_iters = false; // white-box dump: print stale order-list iterators of free slots (see adapters.hpp)
constexpr int MAXK = 8; // max key universe (keys are 1..nkeys)

struct ScanEnt
{
    bool present{false};
    int  wid{-1};
    int  uc{-1};
};
struct Scan
{
    ScanEnt e[MAXK + 1];
    int     count(int nkeys) const
    {
        int c = 0;
        for (int k = 1; k <= nkeys; k++)
            c += e[k].present;
        return c;
    }
};

// Container kinds.
enum class CK : int
{
    lru = 0,
    mru,
    fifo,
    lfu,
    lfuda,
    rr,
    tlru,
    utlru,
    ut_map,
    ut_set
};
inline const char* ck_name(CK c)
{
    static const char* n[] = {"lru", "mru", "fifo", "lfu", "lfuda", "rr", "tlru", "utlru", "ut_map", "ut_set"};
    return n[(int)c];
}

struct Config
{
    int   cap{2};
    int   nkeys{3};
    int   ts{0};      // thread_safe::yes ?
    int   hash{0};    // 0 identity 1 collide
    float lf{1.0f};   // max_load_factor
    int   ttl_ms{2};  // initial uniform ttl (utlru, ut_map, ut_set)
    int64_t ttl_big_ms{0}; // != 0: used instead of ttl_ms (mass scripts; not serialised)
    int   tick_ms{2}; // lfuda tick
    float ratio{0.5f};
    int   valeq{0}; // value equality mode (g_val_eq_mode)
};

// 128-bit state hash (FNV-1a variant x2) -- used for the seen set.
struct H128
{
    uint64_t a, b;
    bool     operator==(const H128& o) const { return a == o.a && b == o.b; }
};
inline H128 hash128(const std::string& s)
{
    uint64_t a = 1469598103934665603ull, b = 0x9E3779B97F4A7C15ull;
    for (unsigned char c : s)
    {
        a = (a ^ c) * 1099511628211ull;
        b = (b + c) * 0xff51afd7ed558ccdull;
        b ^= b >> 29;
    }
    return {a, b};
}
struct H128H
{
    size_t operator()(const H128& h) const { return (size_t)(h.a ^ (h.b * 31)); }
};

} // namespace vf

namespace std
{
template<>
struct hash<vf::Key>
{
    size_t operator()(const vf::Key& k) const noexcept { return vf::g_hash_mode ? 7u : (size_t)k.v; }
};
} // namespace std
