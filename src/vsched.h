/* C interface of the serialising scheduler (src/sched.c). */
#pragma once
#ifdef __cplusplus
extern "C" {
#endif
#define SCH_MAXT 4
#define SCH_MAXOPS 4
#define SCH_MAXPTS 96
#define SCH_INV 1
#define SCH_LOCK 2
#define SCH_ALLOC 3
#define SCH_RDLOCK 4
#define SCH_WRLOCK 5
#define SCH_UNLOCK 6
void sch_reset(int nthreads, const int* prefix, int prefix_len);
void sch_thread_begin(int tid);
void sch_op_begin(int opidx, int first);
void sch_op_end(int opidx);
void sch_thread_end(void);
int  sch_run(void);
int  sch_npoints(void);
int  sch_point_nen(int i);
int  sch_point_choice(int i);
int  sch_point_cur_enabled(int i);
int  sch_point_tid(int i);
int  sch_diverged(void);
int  sch_overflow(void);
int  sch_inv(int tid, int op);
int  sch_ret(int tid, int op);
int  sch_lockpts(int tid, int op);
int  sch_tid(void);
void sch_alloc_points(int on);
void sch_alloc_point(void);
#ifdef __cplusplus
}
#endif
