// E2 "schedmc": preemption-bounded stateless exploration of real threads driving one real container
// under the serialising scheduler of sched.c.  One binary per container kind (-DVF_CK=..) and flavour:
//   asan build  -> C06 (linearizability; oracle = brute force over sequential orders of the same ops,
//                  executed on the same implementation, results + public probes compared)
//   tsan build  -> C07 (data races; oracle = ThreadSanitizer's happens-before detector per execution)
#define VF_GLOBAL_CLOCK 1
#include "adapters.hpp"
#include "vsched.h"

#include <algorithm>
#include <cxxabi.h>
#include <dlfcn.h>
#include <map>
#include <random>
#include <csignal>
#include <pthread.h>
#include <set>
#include <sys/wait.h>
#include <unistd.h>

#ifndef VF_CK
#error "compile with -DVF_CK=<container kind index>"
#endif

namespace vf
{
std::atomic<int64_t>  g_now_ns{BASE_NS};
int                   g_hash_mode = 0;
int                   g_val_eq_mode = 0;
thread_local ValStats g_vs;
} // namespace vf
namespace std
{
namespace chrono
{
inline namespace _V2
{
steady_clock::time_point steady_clock::now() noexcept
{
    return time_point(nanoseconds(vf::g_now_ns.load(std::memory_order_relaxed)));
}
} // namespace _V2
} // namespace chrono
} // namespace std

// Link-time replacement of the entropy source: every std::random_device in the process returns the same
// value, so rr_cache's self-seeded generator is deterministic even when the harness cannot reach into
// the cache to reseed it (black-box fallback build).  The white-box build reseeds per call anyway.
namespace std
{
unsigned int random_device::_M_getval()
{
    return 20240229u;
}
} // namespace std

using namespace vf;

// Replacement allocation functions: give the scheduler its allocation points (see vsched.c).
void* operator new(size_t n)
{
    sch_alloc_point();
    void* p = malloc(n ? n : 1);
    if (!p)
        throw std::bad_alloc();
    return p;
}
void* operator new[](size_t n)
{
    sch_alloc_point();
    void* p = malloc(n ? n : 1);
    if (!p)
        throw std::bad_alloc();
    return p;
}
static inline void vf_free(void* p) noexcept
{
    if (p)
        sch_alloc_point(); // deallocations are footholds too (e.g. a clear() that runs unlocked)
    free(p);
}
void operator delete(void* p) noexcept { vf_free(p); }
void operator delete[](void* p) noexcept { vf_free(p); }
void operator delete(void* p, size_t) noexcept { vf_free(p); }
void operator delete[](void* p, size_t) noexcept { vf_free(p); }

static double wall()
{
    timespec t;
    clock_gettime(CLOCK_MONOTONIC, &t);
    return t.tv_sec + t.tv_nsec * 1e-9;
}
static std::string jesc(const std::string& s)
{
    std::string o;
    for (char c : s)
    {
        if (c == '"' || c == '\\')
        {
            o += '\\';
            o += c;
        }
        else if (c == '\n')
            o += "\\n";
        else if ((unsigned char)c < 32)
            o += ' ';
        else
            o += c;
    }
    return o;
}

// ---------------------------------------------------------------------------------------------
// ThreadSanitizer report hook (only linked into the tsan flavour; harmless elsewhere)
// ---------------------------------------------------------------------------------------------
static volatile int g_races = 0;
#define MAXREP 8
#define MAXTR 24
static void* g_rep_pcs[MAXREP][2][MAXTR];
static int   g_rep_n = 0;
extern "C" int __tsan_get_report_data(
    void* report, const char** description, int* count, int* stack_count, int* mop_count, int* loc_count, int* mutex_count,
    int* thread_count, int* unique_tid_count, void** sleep_trace, unsigned long trace_size) __attribute__((weak));
extern "C" int __tsan_get_report_mop(
    void* report, unsigned long idx, int* tid, void** addr, int* size, int* write, int* atomic, void** trace,
    unsigned long trace_size) __attribute__((weak));
extern "C" void __tsan_on_report(void* rep)
{
    g_races = g_races + 1;
    if (g_rep_n < MAXREP && __tsan_get_report_mop)
    {
        for (int m = 0; m < 2; m++)
        {
            int   tid, size, write, atomic;
            void* addr;
            memset(g_rep_pcs[g_rep_n][m], 0, sizeof g_rep_pcs[g_rep_n][m]);
            __tsan_get_report_mop(rep, m, &tid, &addr, &size, &write, &atomic, g_rep_pcs[g_rep_n][m], MAXTR);
        }
        g_rep_n++;
    }
}
static std::string sym(void* pc)
{
    Dl_info di;
    if (pc && dladdr(pc, &di) && di.dli_sname)
    {
        int   st = 0;
        char* d  = abi::__cxa_demangle(di.dli_sname, nullptr, nullptr, &st);
        std::string s = (st == 0 && d) ? d : di.dli_sname;
        free(d);
        // shorten template argument lists
        std::string o;
        int         depth = 0;
        for (char c : s)
        {
            if (c == '<')
                depth++;
            if (depth == 0)
                o += c;
            if (c == '>')
                depth--;
        }
        return o;
    }
    return "?";
}
static std::string report_stacks(int r)
{
    std::string s;
    for (int m = 0; m < 2; m++)
    {
        s += m ? " || access 2: " : "access 1: ";
        int shown = 0;
        for (int i = 0; i < MAXTR && g_rep_pcs[r][m][i] && shown < 4; i++)
        {
            std::string f = sym(g_rep_pcs[r][m][i]);
            if (f == "?")
                continue;
            s += (shown ? " <- " : "") + f;
            shown++;
        }
    }
    return s;
}
static bool report_in_library(int r)
{
    for (int m = 0; m < 2; m++)
        for (int i = 0; i < MAXTR && g_rep_pcs[r][m][i]; i++)
            if (sym(g_rep_pcs[r][m][i]).find("cappuccino::") != std::string::npos)
                return true;
    return false;
}

// ---------------------------------------------------------------------------------------------
struct Args
{
    Config      cfg;
    int         prop{6};
    std::string tier{"quick"};
    int         bound{2};      // preemption bound (-1 = unbounded)
    int         shape{11};     // 11: 2 threads x 1 op, 12: 2x2, 21: 3x1 (threads-1)(ops)... see progs()
    int         reduced{0};    // use the reduced alphabet
    double      deadline_s{600};
    std::string replay_dir{"/verif/replays"};
    std::string replay_file;
    long        max_exec{50000000};
    int         part{0}, parts{1}; // program partition for parallel processes
    int         verbose{0};
    int         alloc_points{0};
    int         longrange{0}; // programs built around one long range / mass call (130 entries) against single calls
    int         seqcrash{0}; // replay mode: only answer whether some sequential order of the program dies too
    int         clocked{0}; // programs with a clock-tick thread; oracle on deadlines (C04, C05, C17)
};
static const char* g_ckname = "";

// crash context: a fatal sanitizer report / signal while a schedule runs is attributed to it
static std::string (*g_crash_writer)(const char* why) = nullptr;
static void crash_report(const char* why)
{
    if (!g_crash_writer)
    {
        // before any concurrent execution (cross-instance warm-up / sequential set-up): a sequential
        // memory-safety failure, which is C08's verdict
        static const char m[] = "\nCRASH {\"clause\":\"fatal failure before any concurrent execution (sequential set-up)\",\"replay\":\"\",\"races\":0,\"sequential\":1}\n";
        (void)!write(1, m, sizeof m - 1);
        _exit(1);
    }
    std::string p = g_crash_writer(why);
    char        b[1200];
    int         n = snprintf(b, sizeof b, "\nCRASH {\"clause\":\"%s\",\"replay\":\"%s\",\"races\":%d}\n", why, p.c_str(), (int)g_races);
    (void)!write(1, b, n);
}
static void on_signal(int sig)
{
    static volatile sig_atomic_t in = 0;
    if (in)
        _exit(4);
    in = 1;
    if (sig == SIGALRM)
    {
        // not a verdict: a genuine deadlock on the modelled mutexes is detected by the scheduler itself;
        // a schedule that merely never finishes means a blocking primitive the scheduler does not model
        static const char m[] = "HARNESS ERROR: a schedule did not finish within the watchdog limit (unmodelled blocking primitive or livelock)\n";
        (void)!write(2, m, sizeof m - 1);
        _exit(3);
    }
    crash_report(sig == SIGABRT ? "abort during a concurrent execution" : "fatal signal during a concurrent execution");
    _exit(1);
}
extern "C" void __sanitizer_set_death_callback(void (*)(void)) __attribute__((weak));
static void     on_san_death()
{
    static int in = 0;
    if (in)
        return;
    in = 1;
    crash_report("fatal sanitizer report (memory error) during a concurrent execution");
}

template<class A>
struct E2
{
    static constexpr CK     ck = A::kind;
    static constexpr Traits T  = traits_of(ck);
    Args&  a;
    Config cfg;

    struct Prog
    {
        int             nt{2};
        std::vector<Op> ops[SCH_MAXT];
        std::vector<Op> pre;
        std::string     prename;
        int             nops() const
        {
            int n = 0;
            for (int t = 0; t < nt; t++)
                n += (int)ops[t].size();
            return n;
        }
    };
    struct Out
    {
        Result      res[SCH_MAXT][SCH_MAXOPS];
        int         inv[SCH_MAXT][SCH_MAXOPS], ret[SCH_MAXT][SCH_MAXOPS];
        int64_t     clk_inv[SCH_MAXT][SCH_MAXOPS], clk_ret[SCH_MAXT][SCH_MAXOPS];
        std::string probe; // serialised probe output
        std::string dump;
        bool        deadlock{false};
        int         races{0};
        int         npoints{0};
        std::vector<int> nen, choice, cur_en, tids;
    };

    explicit E2(Args& aa) : a(aa), cfg(aa.cfg) {}

    static std::string scan_str(const Scan& x, int U)
    {
        std::string s = "{";
        for (int k = 1; k <= U; k++)
            if (x.e[k].present)
                s += "k" + std::to_string(k) + ":w" + std::to_string(x.e[k].wid) +
                     (x.e[k].uc >= 0 ? "/uc" + std::to_string(x.e[k].uc) : "") + " ";
        return s + "}";
    }

    // Probes run by the main thread after the concurrent phase (or after a sequential candidate).
    //   0: size/empty/capacity + scan              (always)
    //   1: drain: `cap` inserts of fresh keys, scan after each  -> complete eviction order
    //   2: time: clock stepped 1 ms at a time across every deadline, scan after each -> every deadline
    std::string probe(A& ad, int kind)
    {
        std::string s;
        Obs         ob = ad.observe();
        s += "size=" + std::to_string(ob.size) + " empty=" + std::to_string(ob.empty) + " cap=" + std::to_string(ob.capacity);
        if (kind == 0)
        {
            s += " scan=" + scan_str(ad.scan(), cfg.nkeys);
            if (a.longrange)
            {
                Op q;
                q.k    = OpK::FindRange;
                q.span = (int16_t)((a.longrange > 1 ? a.longrange : 130) + 1);
                q.peek = 1;
                s += " all=" + ad.apply(q).str();
            }
        }
        else if (kind == 1)
        {
            for (int i = 0; i < cfg.cap + 1; i++)
            {
                Op o;
                o.k      = OpK::Insert;
                o.n      = 1;
                o.key[0] = 4 + (i % 2);
                o.wid[0] = 900 + i;
                o.ttl[0] = 3;
                o.rngq   = 255;
                Result r = ad.apply(o);
                s += " |ins k" + std::to_string(o.key[0]) + "->" + r.str() + " " + scan_str(ad.scan(), cfg.nkeys);
                if (i == 0 && T.has_uc)
                {
                    // make the probe key outrank count-1 residents so that ties are exposed too
                }
            }
        }
        else
        {
            for (int i = 0; i < 5; i++)
            {
                g_now_ns += MS;
                s += " |+1ms " + scan_str(ad.scan(), cfg.nkeys);
                if (T.has_dynage)
                {
                    Op o;
                    o.k = OpK::DynAge;
                    s += " aged" + ad.apply(o).str() + scan_str(ad.scan(), cfg.nkeys);
                }
                if (T.has_clean)
                {
                    Op o;
                    o.k = OpK::Clean;
                    s += " cleaned" + ad.apply(o).str();
                }
            }
        }
        return s;
    }

    struct WArg
    {
        A*                     ad;
        int                    tid;
        const std::vector<Op>* ops;
        Result*                res;
        int64_t*               clk_inv;
        int64_t*               clk_ret;
    };
    static void* worker(void* p)
    {
        WArg* w = (WArg*)p;
        sch_thread_begin(w->tid);
        for (size_t i = 0; i < w->ops->size(); i++)
        {
            sch_op_begin((int)i, i == 0);
            w->clk_inv[i] = g_now_ns.load(std::memory_order_relaxed);
            w->res[i]     = w->ad->apply((*w->ops)[i]);
            w->clk_ret[i] = g_now_ns.load(std::memory_order_relaxed);
            sch_op_end((int)i);
        }
        sch_thread_end();
        return nullptr;
    }

    void setup(A& ad, const Prog& p)
    {
        ad.reseed(3);
        for (auto& o : p.pre)
            ad.apply(o);
    }

    long executions{0}, sched_steps{0};

    const Prog*             cur_prog{nullptr};
    const std::vector<int>* cur_prefix{nullptr};
    static E2*&             self()
    {
        static E2* s = nullptr;
        return s;
    }
    static std::string crash_writer(const char* why)
    {
        E2* e = self();
        if (!e || !e->cur_prog)
            return "";
        // the schedule as far as it got
        std::vector<int> ch;
        for (int i = 0; i < sch_npoints(); i++)
            ch.push_back(sch_point_choice(i));
        return e->write_replay(*e->cur_prog, ch, why);
    }

    Out run_schedule(const Prog& p, const std::vector<int>& prefix, int probe_kind)
    {
        Out out;
        cur_prog       = &p;
        cur_prefix     = &prefix;
        self()         = this;
        g_crash_writer = &crash_writer;
        alarm(120);
        g_now_ns = BASE_NS;
        int r0   = g_races;
        {
            A ad(cfg);
            setup(ad, p);
            sch_reset(p.nt, prefix.data(), (int)prefix.size());
            sch_alloc_points(a.alloc_points);
            pthread_t th[SCH_MAXT];
            WArg      wa[SCH_MAXT];
            for (int t = 0; t < p.nt; t++)
            {
                wa[t] = WArg{&ad, t, &p.ops[t], out.res[t], out.clk_inv[t], out.clk_ret[t]};
                pthread_create(&th[t], nullptr, worker, &wa[t]);
            }
            int dl = sch_run();
            if (dl)
            {
                out.deadlock = true;
                return out; // threads are stuck: the caller reports and the process exits
            }
            for (int t = 0; t < p.nt; t++)
                pthread_join(th[t], nullptr);
            out.npoints = sch_npoints();
            for (int i = 0; i < out.npoints; i++)
            {
                out.nen.push_back(sch_point_nen(i));
                out.choice.push_back(sch_point_choice(i));
                out.cur_en.push_back(sch_point_cur_enabled(i));
                out.tids.push_back(sch_point_tid(i));
            }
            for (int t = 0; t < p.nt; t++)
                for (size_t i = 0; i < p.ops[t].size(); i++)
                {
                    out.inv[t][i] = sch_inv(t, (int)i);
                    out.ret[t][i] = sch_ret(t, (int)i);
                }
            if (sch_diverged() || sch_overflow())
            {
                fprintf(stderr, "HARNESS ERROR: schedule replay diverged or overflowed (diverged=%d overflow=%d)\n", sch_diverged(), sch_overflow());
                exit(3);
            }
            if (probe_kind == 0)
                out.dump = ad.dump();
            if (probe_kind == 3)
                clocked_suffix(ad, p, out);
            else
                out.probe = probe(ad, probe_kind);
        }
        out.races = g_races - r0;
        executions++;
        sched_steps += out.npoints;
        return out;
    }

    // ---- clocked programs: deadline oracle evaluated by the main thread after the join --------
    std::string clocked_bad; // set by clocked_suffix when a clause of the current property fails
    int ttl_of(const Op& o, int i) const
    {
        if (T.ttl_per_entry)
            return o.ttl[i];
        return cfg.ttl_ms;
    }
    void clocked_suffix(A& ad, const Prog& p, Out& out)
    {
        clocked_bad.clear();
        const int U = 3;
        int64_t   latest[MAXK + 1], earliest[MAXK + 1];
        int       writers[MAXK + 1];
        for (int k = 0; k <= MAXK; k++)
        {
            latest[k]   = -1;
            earliest[k] = -1;
            writers[k]  = 0;
        }
        // pre-state writes happen at BASE (single threaded)
        {
            int64_t t = BASE_NS;
            for (auto& o : p.pre)
            {
                if (o.k == OpK::Advance)
                    t += o.dt;
                if (is_insert(o.k))
                    for (int i = 0; i < o.n; i++)
                    {
                        latest[o.key[i]]   = t + (int64_t)ttl_of(o, i) * MS;
                        earliest[o.key[i]] = latest[o.key[i]];
                        writers[o.key[i]]++;
                    }
            }
        }
        for (int t = 0; t < p.nt; t++)
            for (size_t i = 0; i < p.ops[t].size(); i++)
            {
                const Op& o = p.ops[t][i];
                if (!is_insert(o.k))
                    continue;
                // successful? (a range counts as all-successful only if every element succeeded)
                int  okcount = out.res[t][i].n ? out.res[t][i].v[0] : 0;
                bool allok   = okcount == o.n;
                for (int j = 0; j < o.n; j++)
                {
                    int k = o.key[j];
                    if (okcount == 0)
                        continue; // rejected: wrote nothing
                    writers[k] += allok ? 1 : 2; // partial success: which element wrote is unknown -> no C05 claim
                    int64_t hi = out.clk_ret[t][i] + (int64_t)ttl_of(o, j) * MS;
                    int64_t lo = out.clk_inv[t][i] + (int64_t)ttl_of(o, j) * MS;
                    if (hi > latest[k])
                        latest[k] = hi;
                    earliest[k] = lo; // only used when this is the single writer of k
                }
            }
        std::string s;
        char        b[256];
        for (int step = 0; step < 5; step++)
        {
            int64_t now = g_now_ns.load();
            int64_t stamped[MAXK + 1];
            ad.stamped_deadlines(stamped);
            Scan    sc  = ad.scan();
            s += " |t=" + std::to_string((now - BASE_NS) / 1000) + "us " + scan_str(sc, U);
            for (int k = 1; k <= U; k++)
            {
                if (sc.e[k].present && stamped[k] >= 0 && now >= stamped[k] && a.prop == 4)
                {
                    snprintf(b, sizeof b, "key %d is served at t=%lldns although the deadline the implementation recorded for it is t=%lldns", k, (long long)(now - BASE_NS), (long long)(stamped[k] - BASE_NS));
                    clocked_bad = b;
                }
                if (sc.e[k].present && (latest[k] < 0 || now >= latest[k]) && a.prop == 4)
                {
                    snprintf(b, sizeof b, "key %d is served at t=%lldns although every write of it had expired by t=%lldns", k, (long long)(now - BASE_NS), (long long)(latest[k] - BASE_NS));
                    clocked_bad = b;
                }
                if (!sc.e[k].present && writers[k] == 1 && earliest[k] > now && a.prop == 5)
                {
                    snprintf(b, sizeof b, "key %d is gone at t=%lldns although its only write cannot expire before t=%lldns", k, (long long)(now - BASE_NS), (long long)(earliest[k] - BASE_NS));
                    clocked_bad = b;
                }
            }
            if (T.has_clean)
            {
                Op o;
                o.k      = OpK::Clean;
                Result r = ad.apply(o);
                Obs    ob = ad.observe();
                int    maylive = 0;
                for (int k = 1; k <= U; k++)
                    if (latest[k] > now)
                        maylive++;
                s += " cleaned" + r.str() + " size=" + std::to_string(ob.size);
                ad.stamped_deadlines(stamped);
                for (int k = 1; k <= U; k++)
                    if (stamped[k] >= 0 && now >= stamped[k] && a.prop == 17)
                    {
                        snprintf(b, sizeof b, "clean_expired_values() at t=%lldns left key %d resident although its recorded deadline is t=%lldns (size() %ld)", (long long)(now - BASE_NS), k, (long long)(stamped[k] - BASE_NS), ob.size);
                        clocked_bad = b;
                    }
                if (ob.size > maylive && a.prop == 17)
                {
                    snprintf(b, sizeof b, "after clean_expired_values() at t=%lldns size() is %ld but at most %d entries can still be live", (long long)(now - BASE_NS), ob.size, maylive);
                    clocked_bad = b;
                }
            }
            g_now_ns += MS;
        }
        out.probe = s;
    }

    void run_clocked()
    {
        t0 = wall();
        if (!(T.ttl_cache || T.ttl_map))
            return;
        auto mk = [&](OpK k, std::vector<int> keys, int allow, int ttl) {
            Op o;
            o.k     = k;
            o.n     = (uint8_t)keys.size();
            o.allow = allow;
            o.rngq  = 255;
            for (size_t i = 0; i < keys.size(); i++)
            {
                o.key[i] = keys[i];
                o.ttl[i] = ttl;
            }
            return o;
        };
        std::vector<Op> wr;
        std::vector<int> ttls = T.ttl_per_entry ? std::vector<int>{1, 2} : std::vector<int>{cfg.ttl_ms};
        for (int t : ttls)
        {
            wr.push_back(mk(OpK::Insert, {1}, 3, t));
            wr.push_back(mk(OpK::Insert, {2}, 3, t));
            wr.push_back(mk(OpK::InsertRange, {2, 1}, 3, t));
            wr.push_back(mk(OpK::Insert, {1}, 2, t));
        }
        Op find1 = mk(OpK::Find, {1}, 3, 0);
        wr.push_back(find1);
        std::vector<Pre> pres;
        pres.push_back({"empty", {}});
        pres.push_back({"k1", {mk(OpK::Insert, {1}, 3, T.ttl_per_entry ? 2 : cfg.ttl_ms)}});
        long idx = 0;
        for (auto& pre : pres)
            for (size_t i = 0; i < wr.size(); i++)
                for (size_t j = i; j < wr.size(); j++)
                    for (int tick = 1; tick <= 2; tick++)
                    {
                        if ((idx++ % a.parts) != a.part)
                            continue;
                        Prog p;
                        p.nt      = 3;
                        p.pre     = pre.ops;
                        p.prename = pre.name;
                        p.ops[0]  = {wr[i]};
                        p.ops[1]  = {wr[j]};
                        Op adv;
                        adv.k    = OpK::Advance;
                        adv.dt   = tick * MS;
                        p.ops[2] = {adv};
                        assign_wids(p);
                        explore_program(p, a.bound);
                        if (capped)
                            return;
                    }
        bound_completed = a.bound < 0 ? 99 : a.bound;
    }

    // ---- long-range programs: one call whose work grows with the number of entries (range forms over 130
    //      keys, clean_expired_values over 130 expired entries, dynamically_age over 130 idle entries) against
    //      one or two single calls of another thread.  Catches work that is (wrongly) done in batches with the
    //      lock released in between. ------------------------------------------------------------------------
    void run_longrange()
    {
        t0 = wall();
        const int N = a.longrange > 1 ? a.longrange : 130; // --longrange 1: 130 entries; --longrange N: N entries (N <= 32000)
        auto span = [&](OpK k, int allow, int peek) {
            Op o;
            o.k      = k;
            o.span   = N;
            o.allow  = allow;
            o.peek   = peek;
            o.rngq   = 255;
            o.ttl[0] = 2;
            return o;
        };
        auto one = [&](OpK k, int key, int allow = 3, int peek = 0) {
            Op o;
            o.k      = k;
            o.n      = 1;
            o.key[0] = (int16_t)key;
            o.allow  = allow;
            o.peek   = peek;
            o.rngq   = 255;
            o.ttl[0] = 2;
            return o;
        };
        auto adv = [&](int64_t dt) {
            Op o;
            o.k  = OpK::Advance;
            o.dt = dt;
            return o;
        };
        auto plain = [&](OpK k) {
            Op o;
            o.k = k;
            return o;
        };
        Op fill    = span(OpK::InsertRange, 3, 0);
        fill.wid[0] = 10000;
        std::vector<Pre> pres;
        pres.push_back({std::to_string(N) + " live", {fill}});
        if (T.ttl_cache || T.ttl_map)
            pres.push_back({std::to_string(N) + " expired", {fill, adv(2 * MS)}});
        if (ck == CK::lfuda)
            pres.push_back({std::to_string(N) + " idle", {fill, adv(2 * MS + 1)}});
        std::vector<Op> big;
        big.push_back(span(OpK::FindRange, 3, T.has_peek ? 1 : 0));
        if (T.has_peek)
            big.push_back(span(OpK::FindRange, 3, 0));
        big.push_back(span(OpK::FindRangeFill, 3, T.has_peek ? 1 : 0));
        big.push_back(span(OpK::InsertRange, 2, 0));
        big.push_back(span(OpK::EraseRange, 3, 0));
        if (T.has_clean)
            big.push_back(plain(OpK::Clean));
        if (T.has_dynage)
            big.push_back(plain(OpK::DynAge));
        if (T.has_clear)
            big.push_back(plain(OpK::Clear)); // (seed C20f: ut_map clear() in batches of 4096 with the lock dropped in between)
        std::vector<std::vector<Op>> small;
        small.push_back({one(OpK::Insert, 100, 3)});
        small.push_back({one(OpK::Erase, 100)});
        small.push_back({one(OpK::Find, 100)});
        small.push_back({one(OpK::Insert, N + 1, 3)});
        small.push_back({plain(OpK::Size)});
        if (T.has_uc)
            small.push_back({one(OpK::FindUC, 1, 3, 1), one(OpK::FindUC, N, 3, 1)});
        else
            small.push_back({one(OpK::Find, 1, 3, T.has_peek ? 1 : 0), one(OpK::Find, N, 3, T.has_peek ? 1 : 0)});
        long idx = 0;
        for (auto& pre : pres)
            for (auto& b : big)
                for (auto& sm : small)
                {
                    if ((idx++ % a.parts) != a.part)
                        continue;
                    Prog p;
                    p.nt      = 2;
                    p.pre     = pre.ops;
                    p.prename = pre.name;
                    p.ops[0]  = {b};
                    p.ops[1]  = sm;
                    int w     = 20000;
                    for (int t = 0; t < 2; t++)
                        for (auto& o : p.ops[t])
                        {
                            o.wid[0] = w;
                            w += 500;
                        }
                    explore_program(p, a.bound);
                    if (capped)
                        return;
                }
        bound_completed = a.bound < 0 ? 99 : a.bound;
    }

    struct SeqOut
    {
        std::vector<Result> res; // in order of the candidate
        std::string         probe[3];
        bool                have[3]{false, false, false};
        std::string         dump;
    };
    // sequential execution of the same operations in a given order (list of (tid, idx))
    void run_seq(const Prog& p, const std::vector<std::pair<int, int>>& order, int probe_kind, SeqOut& so)
    {
        g_now_ns = BASE_NS;
        A ad(cfg);
        setup(ad, p);
        so.res.clear();
        for (auto& ti : order)
            so.res.push_back(ad.apply(p.ops[ti.first][ti.second]));
        if (probe_kind == 0)
            so.dump = ad.dump();
        so.probe[probe_kind] = probe(ad, probe_kind);
        so.have[probe_kind]  = true;
    }

    // -----------------------------------------------------------------------------------------
    // statistics / reporting
    // -----------------------------------------------------------------------------------------
    struct VRec
    {
        std::string clause, replay, hist;
    };
    std::vector<VRec>     viols;
    std::set<std::string> viol_keys;
    long                  programs{0}, schedules{0}, choice_points{0}, nonconflict_programs{0}, benign_internal{0};
    long                  slow_path{0}, harness_races{0};
    int                   bound_completed{-1};
    bool                  capped{false};
    double                t0{0};
    std::vector<std::string> samples;
    std::map<std::string, int> nolock_ops;

    std::string prog_str(const Prog& p)
    {
        std::string s = "pre[" + p.prename + "]";
        for (int t = 0; t < p.nt; t++)
        {
            s += " T" + std::to_string(t) + ":";
            for (size_t i = 0; i < p.ops[t].size(); i++)
                s += (i ? "; " : " ") + op_str(p.ops[t][i]);
        }
        return s;
    }
    std::string sched_str(const Out& o)
    {
        std::string s;
        for (int i = 0; i < o.npoints; i++)
            s += "T" + std::to_string(o.tids[i]) + (i + 1 < o.npoints ? "," : "");
        return s;
    }

    std::string write_replay(const Prog& p, const std::vector<int>& choices, const std::string& clause)
    {
        std::string body;
        char        b[512];
        snprintf(
            b,
            sizeof b,
            "engine schedmc\ncontainer %s\nflavour %s\ncfg %d %d %d %d %g %d %d %g\nprops C%02d\nclause %s\nthreads %d\nprename %s\n",
            g_ckname,
            a.prop == 7 ? "tsan" : "asan",
            cfg.cap,
            cfg.nkeys,
            cfg.ts,
            cfg.hash,
            cfg.lf,
            cfg.ttl_ms,
            cfg.tick_ms,
            cfg.ratio,
            a.prop,
            clause.c_str(),
            p.nt,
            p.prename.c_str());
        body += b;
        for (auto& o : p.pre)
            body += "pre " + op_ser(o) + " # " + op_str(o) + "\n";
        for (int t = 0; t < p.nt; t++)
            for (auto& o : p.ops[t])
                body += "t" + std::to_string(t) + " " + op_ser(o) + " # " + op_str(o) + "\n";
        if (a.clocked)
            body += "clocked 1\n";
        if (a.alloc_points)
            body += "allocpoints " + std::to_string(a.alloc_points) + "\n";
        if (a.longrange)
            body += "longrange " + std::to_string(a.longrange) + "\n";
        body += "schedule";
        for (int c : choices)
            body += " " + std::to_string(c);
        body += "\n";
        H128 h = hash128(body);
        snprintf(b, sizeof b, "%s/C%02d-%s-%016llx.replay", a.replay_dir.c_str(), a.prop, g_ckname, (unsigned long long)h.a);
        FILE* f = fopen(b, "w");
        if (f)
        {
            fputs(body.c_str(), f);
            fclose(f);
        }
        return b;
    }

    void violation(const Prog& p, const Out& o, const std::string& clause)
    {
        std::string key = clause.substr(0, 60) + "|" + prog_str(p).substr(0, 200);
        if (viols.size() >= 40 || viol_keys.count(key))
            return;
        viol_keys.insert(key);
        VRec v;
        v.clause = clause;
        v.replay = write_replay(p, o.choice, clause);
        v.hist   = prog_str(p) + "  schedule " + sched_str(o);
        viols.push_back(v);
    }

    // -----------------------------------------------------------------------------------------
    // linearizability check of one execution
    // -----------------------------------------------------------------------------------------
    struct Cand
    {
        std::vector<std::pair<int, int>> order;
        SeqOut                           so;
    };
    std::vector<Cand> cands; // all per-thread-order-respecting interleavings of the current program

    void build_cands(const Prog& p)
    {
        cands.clear();
        std::vector<std::pair<int, int>> cur;
        std::vector<int>                 pos(p.nt, 0);
        int                              total = p.nops();
        std::function<void()>            rec   = [&]() {
            if ((int)cur.size() == total)
            {
                Cand c;
                c.order = cur;
                cands.push_back(std::move(c));
                return;
            }
            for (int t = 0; t < p.nt; t++)
                if (pos[t] < (int)p.ops[t].size())
                {
                    cur.emplace_back(t, pos[t]);
                    pos[t]++;
                    rec();
                    pos[t]--;
                    cur.pop_back();
                }
        };
        rec();
    }

    bool respects_realtime(const Cand& c, const Out& o)
    {
        // if op x returned before op y was invoked, x must come first
        for (size_t i = 0; i < c.order.size(); i++)
            for (size_t j = i + 1; j < c.order.size(); j++)
            {
                auto x = c.order[i], y = c.order[j];
                // y is placed after x: violated if y returned before x was invoked
                if (o.ret[y.first][y.second] < o.inv[x.first][x.second])
                    return false;
            }
        return true;
    }

    bool results_match(const Prog& p, const Cand& c, const Out& o)
    {
        (void)p;
        for (size_t i = 0; i < c.order.size(); i++)
        {
            auto ti = c.order[i];
            if (c.so.res[i] != o.res[ti.first][ti.second])
                return false;
        }
        return true;
    }

    std::set<std::string> prog_outcomes;

    void check_linearizable(const Prog& p, const std::vector<int>& choices, const Out& o)
    {
        std::string oc;
        for (int t = 0; t < p.nt; t++)
            for (size_t i = 0; i < p.ops[t].size(); i++)
                oc += o.res[t][i].str();
        oc += o.probe;
        prog_outcomes.insert(oc);
        std::vector<Cand*> match;
        bool               exact = false;
        for (auto& c : cands)
        {
            if (!respects_realtime(c, o))
                continue;
            if (!c.so.have[0])
                run_seq(p, c.order, 0, c.so);
            if (!results_match(p, c, o) || c.so.probe[0] != o.probe)
                continue;
            match.push_back(&c);
            if (A::whitebox && c.so.dump == o.dump)
            {
                exact = true;
                break;
            }
        }
        if (exact)
            return;
        if (match.empty())
        {
            std::string res;
            for (int t = 0; t < p.nt; t++)
                for (size_t i = 0; i < p.ops[t].size(); i++)
                    res += " T" + std::to_string(t) + "." + std::to_string(i) + "=" + o.res[t][i].str();
            violation(p, o, "no sequential order of the operations explains the results" + res + " final " + o.probe);
            return;
        }
        // results and the basic probe are explained, but the concrete final state matches none of the
        // explaining orders: decide with the public drain and time probes (re-executing the schedule)
        slow_path++;
        for (int pk = 1; pk <= 2 && !match.empty(); pk++)
        {
            Out                o2 = run_schedule(p, choices, pk);
            for (int t = 0; t < p.nt; t++)
                for (size_t i = 0; i < p.ops[t].size(); i++)
                    if (o2.res[t][i] != o.res[t][i])
                    {
                        fprintf(stderr, "HARNESS ERROR: re-execution of a schedule returned different results\n");
                        exit(3);
                    }
            std::vector<Cand*> keep;
            for (Cand* c : match)
            {
                if (!c->so.have[pk])
                    run_seq(p, c->order, pk, c->so);
                if (c->so.probe[pk] == o2.probe)
                    keep.push_back(c);
            }
            if (keep.empty())
            {
                violation(
                    p,
                    o,
                    std::string("results are explained by a sequential order but the ") + (pk == 1 ? "eviction order" : "expiry/aging behaviour") +
                        " afterwards is not: observed " + o2.probe);
                return;
            }
            match.swap(keep);
        }
        benign_internal++;
    }

    // -----------------------------------------------------------------------------------------
    // stateless DFS over schedules, iterating the preemption bound
    // -----------------------------------------------------------------------------------------
    bool time_up() { return wall() - t0 > a.deadline_s || executions > a.max_exec; }

    void explore_program(const Prog& p, int bound)
    {
        programs++;
        prog_outcomes.clear();
        if (a.prop == 6)
            build_cands(p);
        clocked_bad.clear();
        std::vector<std::vector<int>> stack;
        stack.push_back({});
        bool first = true;
        long nsched = 0;
        while (!stack.empty())
        {
            if (time_up() || viols.size() >= 12)
            {
                capped = true;
                return;
            }
            std::vector<int> prefix = std::move(stack.back());
            stack.pop_back();
            Out o = run_schedule(p, prefix, a.clocked ? 3 : 0);
            if (o.deadlock)
            {
                Out oo   = o;
                oo.npoints = sch_npoints();
                for (int i = 0; i < oo.npoints; i++)
                {
                    oo.choice.push_back(sch_point_choice(i));
                    oo.tids.push_back(sch_point_tid(i));
                }
                violation(p, oo, "deadlock: no thread can run and not all operations have returned");
                print_json();
                fflush(stdout);
                _exit(1);
            }
            if (first)
            {
                // determinism: the very same schedule must give the same observations twice
                Out o2 = run_schedule(p, o.choice, a.clocked ? 3 : 0);
                if (o2.probe != o.probe || o2.dump != o.dump)
                {
                    fprintf(stderr, "HARNESS ERROR: nondeterministic execution of %s\n", prog_str(p).c_str());
                    exit(3);
                }
                first = false;
                for (int t = 0; t < p.nt; t++)
                    for (size_t i = 0; i < p.ops[t].size(); i++)
                        if (sch_lockpts(t, (int)i) == 0)
                            nolock_ops[opk_name(p.ops[t][i].k)]++;
            }
            nsched++;
            schedules++;
            choice_points += o.npoints;
            if (a.clocked && !clocked_bad.empty())
                violation(p, o, clocked_bad);
            if (a.prop == 6)
                check_linearizable(p, o.choice, o);
            else
            {
                std::string oc;
                for (int t = 0; t < p.nt; t++)
                    for (size_t i = 0; i < p.ops[t].size(); i++)
                        oc += o.res[t][i].str();
                prog_outcomes.insert(oc + o.probe);
            }
            if (o.races > 0)
            {
                int r = g_rep_n - 1;
                bool lib = (r >= 0 && r < MAXREP) ? report_in_library(r) : true;
                std::string st = (r >= 0 && r < MAXREP) ? report_stacks(r) : "(stacks not captured)";
                if (a.prop == 7)
                {
                    if (lib)
                        violation(p, o, "data race reported by the happens-before detector: " + st);
                    else
                    {
                        harness_races++;
                        fprintf(stderr, "HARNESS RACE (no library frame): %s in %s\n", st.c_str(), prog_str(p).c_str());
                    }
                }
                if (g_rep_n >= MAXREP)
                    g_rep_n = MAXREP - 1; // keep capturing the latest
            }
            // alternatives (cost = preemptions so far)
            int cost = 0;
            std::vector<int> costs(o.npoints + 1, 0);
            for (int i = 0; i < o.npoints; i++)
            {
                costs[i] = cost;
                if (o.cur_en[i] && o.choice[i] != 0)
                    cost++;
            }
            for (int i = o.npoints - 1; i >= (int)prefix.size(); i--)
            {
                for (int alt = o.nen[i] - 1; alt >= 1; alt--)
                {
                    int c = costs[i] + (o.cur_en[i] ? 1 : 0);
                    if (bound >= 0 && c > bound)
                        continue;
                    std::vector<int> np(o.choice.begin(), o.choice.begin() + i);
                    np.push_back(alt);
                    stack.push_back(std::move(np));
                }
            }
        }
        if (prog_outcomes.size() <= 1)
            nonconflict_programs++;
        if (samples.size() < 4 && nsched > 1)
            samples.push_back(prog_str(p) + "  (" + std::to_string(nsched) + " schedules, " + std::to_string(prog_outcomes.size()) + " distinct outcomes)");
    }

    // -----------------------------------------------------------------------------------------
    // programs
    // -----------------------------------------------------------------------------------------
    std::vector<Op> alphabet(int reduced)
    {
        std::vector<Op> al;
        auto            mk = [&](OpK k, std::vector<int> keys, int allow = 3, int peek = 0, int ttl = 2) {
            Op o;
            o.k     = k;
            o.n     = (uint8_t)keys.size();
            o.allow = allow;
            o.peek  = peek;
            o.rngq  = 255;
            for (size_t i = 0; i < keys.size(); i++)
            {
                o.key[i] = keys[i];
                o.ttl[i] = ttl;
            }
            return o;
        };
        // reduced == 2: "mini" alphabet (for the longer per-thread programs); 1: reduced; 0: full
        al.push_back(mk(OpK::Insert, {1}));
        al.push_back(mk(OpK::Insert, {3}));
        al.push_back(mk(OpK::Erase, {1}));
        if (reduced != 2)
            al.push_back(mk(OpK::Find, {1}));
        al.push_back(mk(OpK::InsertRange, {1, 3}));
        al.push_back(mk(OpK::FindRange, {1, 2}));
        if (reduced != 2)
            al.push_back(mk(OpK::Size, {}));
        if (T.has_clean)
            al.push_back(mk(OpK::Clean, {}));
        if (T.has_update_ttl)
        {
            Op o     = mk(OpK::UpdateTtl, {});
            o.ttl[0] = 1;
            al.push_back(o);
        }
        if (reduced)
            return al;
        al.push_back(mk(OpK::Insert, {2}));
        al.push_back(mk(OpK::Insert, {1}, 1));
        al.push_back(mk(OpK::Insert, {3}, 2));
        if (T.ttl_per_entry)
            al.push_back(mk(OpK::Insert, {3}, 3, 0, 0));
        al.push_back(mk(OpK::Erase, {2}));
        al.push_back(mk(OpK::Find, {2}));
        if (T.has_peek)
            al.push_back(mk(OpK::Find, {1}, 3, 1));
        if (T.has_uc)
        {
            al.push_back(mk(OpK::FindUC, {1}));
            al.push_back(mk(OpK::FindUC, {2}, 3, 1));
        }
        al.push_back(mk(OpK::InsertRange, {3, 2}, 1));
        al.push_back(mk(OpK::EraseRange, {1, 2}));
        al.push_back(mk(OpK::EraseRange, {2, 3}));
        al.push_back(mk(OpK::FindRangeFill, {2, 1}));
        if (T.has_iter_forms)
        {
            al.push_back(mk(OpK::InsertIt, {3, 1}));
            al.push_back(mk(OpK::EraseIt, {1, 2}));
            al.push_back(mk(OpK::FindIt, {1, 2}));
            al.push_back(mk(OpK::FindFillIt, {1, 2}));
        }
        al.push_back(mk(OpK::Empty, {}));
        if (T.has_capacity)
            al.push_back(mk(OpK::Capacity, {}));
        if (T.has_dynage)
            al.push_back(mk(OpK::DynAge, {}));
        if (T.has_clear)
            al.push_back(mk(OpK::Clear, {}));
        if (T.has_update_ttl)
        {
            Op o     = mk(OpK::UpdateTtl, {});
            o.ttl[0] = 3;
            al.push_back(o);
        }
        return al;
    }

    struct Pre
    {
        std::string     name;
        std::vector<Op> ops;
    };
    std::vector<Pre> prestates(bool reduced)
    {
        std::vector<Pre> ps;
        auto ins = [&](int k, int w, int ttl = 2) {
            Op o;
            o.k      = OpK::Insert;
            o.n      = 1;
            o.key[0] = k;
            o.wid[0] = w;
            o.ttl[0] = ttl;
            o.rngq   = 255;
            return o;
        };
        auto adv = [&](int ms) {
            Op o;
            o.k  = OpK::Advance;
            o.dt = ms * MS;
            return o;
        };
        auto fnd = [&](int k) {
            Op o;
            o.k      = OpK::Find;
            o.n      = 1;
            o.key[0] = k;
            return o;
        };
        ps.push_back({"empty", {}});
        ps.push_back({"full", {ins(1, 701), ins(2, 702)}});
        if (!reduced)
            ps.push_back({"half", {ins(1, 701)}});
        if (T.ttl_cache || T.ttl_map)
        {
            // k1 expired (not yet removed), k2 live
            ps.push_back({"full-one-expired", {ins(1, 701, 1), adv(1), ins(2, 702, 2), adv(1)}});
        }
        if (ck == CK::lfuda)
            ps.push_back({"full-one-stale", {ins(1, 701), fnd(1), adv(3), ins(2, 702)}});
        if (!reduced && (ck == CK::lfu || ck == CK::lru || ck == CK::mru))
            ps.push_back({"full-used", {ins(1, 701), ins(2, 702), fnd(1)}});
        return ps;
    }

    void assign_wids(Prog& p)
    {
        int w = 1;
        for (int t = 0; t < p.nt; t++)
            for (auto& o : p.ops[t])
                for (int j = 0; j < o.n; j++)
                    o.wid[j] = w++;
    }

    // shape: nt threads x no ops each; all multisets of per-thread op lists (thread symmetry)
    void run_all()
    {
        t0         = wall();
        int  nt    = a.shape / 10 + 1;
        int  no    = a.shape % 10;
        auto al    = alphabet(a.reduced);
        auto pres  = prestates(a.reduced);
        // per-thread op lists
        std::vector<std::vector<Op>> lists;
        {
            std::vector<Op>       cur;
            std::function<void()> rec = [&]() {
                if ((int)cur.size() == no)
                {
                    lists.push_back(cur);
                    return;
                }
                for (auto& o : al)
                {
                    cur.push_back(o);
                    rec();
                    cur.pop_back();
                }
            };
            rec();
        }
        // multisets of size nt
        std::vector<std::vector<int>> combos;
        {
            std::vector<int>         cur;
            std::function<void(int)> rec = [&](int from) {
                if ((int)cur.size() == nt)
                {
                    combos.push_back(cur);
                    return;
                }
                for (int i = from; i < (int)lists.size(); i++)
                {
                    cur.push_back(i);
                    rec(i);
                    cur.pop_back();
                }
            };
            rec(0);
        }
        std::vector<int> bounds;
        if (a.bound < 0)
            bounds = {-1};
        else
            bounds = {a.bound}; // DFS with bound b covers every bound below it
        for (int b : bounds)
        {
            long idx = 0;
            for (auto& pre : pres)
                for (auto& cb : combos)
                {
                    if ((idx++ % a.parts) != a.part)
                        continue;
                    Prog p;
                    p.nt      = nt;
                    p.pre     = pre.ops;
                    p.prename = pre.name;
                    for (int t = 0; t < nt; t++)
                        p.ops[t] = lists[cb[t]];
                    assign_wids(p);
                    explore_program(p, b);
                    if (capped)
                        break;
                }
            if (!capped)
                bound_completed = b < 0 ? 99 : b;
        }
    }

    // -----------------------------------------------------------------------------------------
    int run_replay()
    {
        FILE* f = fopen(a.replay_file.c_str(), "r");
        if (!f)
            return 3;
        Prog             p;
        std::vector<int> choices;
        char             line[2048];
        while (fgets(line, sizeof line, f))
        {
            Op o;
            if (!strncmp(line, "cfg ", 4))
            {
                double lf, ratio;
                sscanf(line + 4, "%d %d %d %d %lf %d %d %lf", &cfg.cap, &cfg.nkeys, &cfg.ts, &cfg.hash, &lf, &cfg.ttl_ms, &cfg.tick_ms, &ratio);
                cfg.lf    = (float)lf;
                cfg.ratio = (float)ratio;
            }
            else if (!strncmp(line, "threads ", 8))
                p.nt = atoi(line + 8);
            else if (!strncmp(line, "prename ", 8))
            {
                p.prename = line + 8;
                while (!p.prename.empty() && p.prename.back() == '\n')
                    p.prename.pop_back();
            }
            else if (!strncmp(line, "pre ", 4) && op_parse(line + 4, o))
                p.pre.push_back(o);
            else if (line[0] == 't' && line[1] >= '0' && line[1] <= '9' && line[2] == ' ' && op_parse(line + 3, o))
                p.ops[line[1] - '0'].push_back(o);
            else if (!strncmp(line, "schedule", 8))
            {
                char* s = line + 8;
                while (*s)
                {
                    while (*s == ' ')
                        s++;
                    if (*s == '\n' || !*s)
                        break;
                    choices.push_back(atoi(s));
                    while (*s && *s != ' ')
                        s++;
                }
            }
            else if (!strncmp(line, "clocked 1", 9))
                a.clocked = 1;
            else if (!strncmp(line, "allocpoints ", 12))
                a.alloc_points = atoi(line + 12);
            else if (!strncmp(line, "longrange ", 10))
                a.longrange = atoi(line + 10);
            else if (!strncmp(line, "props C", 7))
                a.prop = atoi(line + 7);
            else if (!strncmp(line, "clause ", 7))
                printf("recorded: %s", line + 7);
        }
        fclose(f);
        g_hash_mode = cfg.hash;
        t0          = wall();
        if (a.seqcrash)
        {
            // does any sequential order of the same operations die as well?  (each order in a child process)
            build_cands(p);
            int dying = 0;
            for (auto& c : cands)
            {
                fflush(stdout);
                pid_t pid = fork();
                if (pid == 0)
                {
                    signal(SIGABRT, SIG_DFL);
                    signal(SIGSEGV, SIG_DFL);
                    alarm(30);
                    SeqOut so;
                    run_seq(p, c.order, a.clocked ? 0 : 0, so);
                    _exit(0);
                }
                int st = 0;
                waitpid(pid, &st, 0);
                if (!(WIFEXITED(st) && WEXITSTATUS(st) == 0))
                    dying++;
            }
            printf("SEQCRASH %d of %zu sequential orders fail fatally\n", dying, cands.size());
            return dying ? 10 : 0;
        }
        printf("program: %s\n", prog_str(p).c_str());
        Out o = run_schedule(p, choices, a.clocked ? 3 : 0);
        if (o.deadlock)
        {
            printf("RESULT: deviation reproduced (deadlock)\n");
            fflush(stdout);
            _exit(1);
        }
        printf("schedule (thread run at each point): %s\n", sched_str(o).c_str());
        for (int t = 0; t < p.nt; t++)
            for (size_t i = 0; i < p.ops[t].size(); i++)
                printf("  T%d %-50s invoked@%d returned@%d -> %s\n", t, op_str(p.ops[t][i]).c_str(), o.inv[t][i], o.ret[t][i], o.res[t][i].str().c_str());
        printf("  final: %s\n", o.probe.c_str());
        size_t before = viols.size();
        if (a.clocked)
        {
            if (!clocked_bad.empty())
            {
                VRec v;
                v.clause = clocked_bad;
                viols.push_back(v);
            }
        }
        else if (a.prop == 6)
        {
            build_cands(p);
            check_linearizable(p, o.choice, o);
            for (auto& c : cands)
                if (c.so.have[0])
                {
                    std::string s;
                    for (size_t i = 0; i < c.order.size(); i++)
                        s += " T" + std::to_string(c.order[i].first) + "." + std::to_string(c.order[i].second) + "=" + c.so.res[i].str();
                    printf("  sequential order%s -> final %s%s\n", s.c_str(), c.so.probe[0].c_str(), respects_realtime(c, o) ? "" : "   (violates real-time order)");
                }
        }
        else if (o.races > 0)
        {
            int r = std::min(g_rep_n - 1, MAXREP - 1);
            printf("  data race: %s\n", r >= 0 ? report_stacks(r).c_str() : "(see stderr)");
            viols.push_back(VRec{});
        }
        bool bad = viols.size() > before;
        for (size_t i = before; i < viols.size(); i++)
            if (!viols[i].clause.empty())
                printf("  DEVIATION: %s\n", viols[i].clause.c_str());
        printf(bad ? "RESULT: deviation reproduced\n" : "RESULT: no deviation\n");
        return bad ? 1 : 0;
    }

    void print_json()
    {
        printf("RESULT {\"container\":\"%s\",\"prop\":\"C%02d\",\"mode\":\"schedmc\",", g_ckname, a.prop);
        printf(
            "\"cfg\":{\"cap\":%d,\"nkeys\":%d,\"ts\":1,\"hash\":%d,\"ttl_ms\":%d,\"tick_ms\":%d,\"ratio\":%g,\"threads\":%d,"
            "\"ops_per_thread\":%d,\"reduced_alphabet\":%d,\"bound\":%d,\"alloc_points\":%d,\"part\":%d,\"parts\":%d},",
            cfg.cap,
            cfg.nkeys,
            cfg.hash,
            cfg.ttl_ms,
            cfg.tick_ms,
            cfg.ratio,
            a.shape / 10 + 1,
            a.shape % 10,
            a.reduced,
            a.bound,
            a.alloc_points,
            a.part,
            a.parts);
        printf(
            "\"programs\":%ld,\"schedules\":%ld,\"executions\":%ld,\"choice_points\":%ld,\"sched_steps\":%ld,"
            "\"bound_completed\":%d,\"capped\":%s,\"nonconflicting_programs\":%ld,\"benign_internal_differences\":%ld,"
            "\"slow_path_checks\":%ld,\"harness_races\":%ld,\"wall_s\":%.2f,",
            programs,
            schedules,
            executions,
            choice_points,
            sched_steps,
            bound_completed,
            capped ? "true" : "false",
            nonconflict_programs,
            benign_internal,
            slow_path,
            harness_races,
            wall() - t0);
        printf("\"ops_without_lock_point\":{");
        bool firstk = true;
        for (auto& kv : nolock_ops)
        {
            printf("%s\"%s\":%d", firstk ? "" : ",", kv.first.c_str(), kv.second);
            firstk = false;
        }
        printf("},\"samples\":[");
        for (size_t i = 0; i < samples.size(); i++)
            printf("%s\"%s\"", i ? "," : "", jesc(samples[i]).c_str());
        printf("],\"violations\":[");
        for (size_t i = 0; i < viols.size(); i++)
            printf(
                "%s{\"clause\":\"%s\",\"replay\":\"%s\",\"history\":\"%s\"}",
                i ? "," : "",
                jesc(viols[i].clause).c_str(),
                viols[i].replay.c_str(),
                jesc(viols[i].hist).c_str());
        printf("]}\n");
        fflush(stdout);
    }
};

int main(int argc, char** argv)
{
    Args a;
    a.cfg.cap      = 2;
    a.cfg.nkeys    = 5;
    a.cfg.ts       = 1;
    a.cfg.ttl_ms   = 2;
    a.cfg.tick_ms  = 2;
    constexpr CK ck = (CK)VF_CK;
    g_ckname        = ck_name(ck);
    for (int i = 1; i < argc; i++)
    {
        std::string s  = argv[i];
        auto        nx = [&]() -> const char* { return i + 1 < argc ? argv[++i] : ""; };
        if (s == "--prop")
            a.prop = atoi(nx());
        else if (s == "--bound")
            a.bound = atoi(nx());
        else if (s == "--shape")
            a.shape = atoi(nx());
        else if (s == "--reduced")
            a.reduced = atoi(nx());
        else if (s == "--deadline")
            a.deadline_s = atof(nx());
        else if (s == "--replay-dir")
            a.replay_dir = nx();
        else if (s == "--replay")
            a.replay_file = nx();
        else if (s == "--hash")
            a.cfg.hash = atoi(nx());
        else if (s == "--ttl")
            a.cfg.ttl_ms = atoi(nx());
        else if (s == "--part")
            a.part = atoi(nx());
        else if (s == "--parts")
            a.parts = atoi(nx());
        else if (s == "--max-exec")
            a.max_exec = atol(nx());
        else if (s == "--verbose")
            a.verbose = 1;
        else if (s == "--clocked")
            a.clocked = atoi(nx());
        else if (s == "--alloc-points")
            a.alloc_points = atoi(nx());
        else if (s == "--seqcrash")
            a.seqcrash = 1;
        else if (s == "--longrange")
            a.longrange = atoi(nx());
        else
        {
            fprintf(stderr, "unknown argument %s\n", s.c_str());
            return 3;
        }
    }
    g_hash_mode = a.cfg.hash;
    rng_seeds();
    signal(SIGALRM, on_signal);
    signal(SIGABRT, on_signal);
    if (__sanitizer_set_death_callback)
        __sanitizer_set_death_callback(on_san_death);
    else
        signal(SIGSEGV, on_signal);
    using AD = Ad<ck, cappuccino::thread_safe::yes>;
    warm_up_other_instance<AD>();
    E2<AD> e(a);
    if (!a.replay_file.empty())
        return e.run_replay();
    if (a.longrange)
    {
        e.cfg.cap = a.longrange > 1 ? a.longrange + 70 : 200;
        a.cfg.cap = e.cfg.cap;
        e.run_longrange();
    }
    else if (a.clocked)
        e.run_clocked();
    else
        e.run_all();
    e.print_json();
    if (e.harness_races)
        return 3;
    return e.viols.empty() ? 0 : 1;
}
