# Builds the verification engines from /repo's current working tree.
REPO ?= /repo
B ?= build
CXX := g++
BBFLAG := $(if $(BLACKBOX),-DVF_BLACKBOX,)
COMMON := $(BBFLAG) -std=c++17 -I$(REPO)/inc -Isrc -fno-access-control -DCAPPUCCINO_VERIF_HOOKS -pthread -Wall -Wno-unused-function
PLAIN := -O2
SAN := -O1 -g -fsanitize=address,undefined -fno-sanitize-recover=undefined -fno-omit-frame-pointer -D_GLIBCXX_DEBUG -D_GLIBCXX_ASSERTIONS
KINDS := lru mru fifo lfu lfuda rr tlru utlru ut_map ut_set
IDX_lru := 0
IDX_mru := 1
IDX_fifo := 2
IDX_lfu := 3
IDX_lfuda := 4
IDX_rr := 5
IDX_tlru := 6
IDX_utlru := 7
IDX_ut_map := 8
IDX_ut_set := 9
REPO_HDRS := $(wildcard $(REPO)/inc/cappuccino/*.hpp)
SRC_HDRS := $(wildcard src/*.hpp src/*.inc)

# Content-based staleness: the binaries depend on a stamp that is touched whenever the hash of the
# library headers and of the harness sources changes - independent of file modification times (a file
# restored with an old mtime must still trigger a rebuild).
STAMP := $(B)/repo_stamp
HASH := $(shell cat $(sort $(REPO_HDRS)) $(sort $(wildcard src/*)) 2>/dev/null | sha256sum | cut -d' ' -f1)$(BLACKBOX)
$(shell mkdir -p $(B); if [ "$$(cat $(B)/repo_hash 2>/dev/null)" != "$(HASH)" ]; then echo "$(HASH)" > $(B)/repo_hash; touch $(STAMP); fi)

PLAIN_BINS := $(foreach k,$(KINDS),$(B)/seqmc_$(k)_plain)
SAN_BINS := $(foreach k,$(KINDS),$(B)/seqmc_$(k)_san)
E2A_BINS := $(foreach k,$(KINDS),$(B)/schedmc_$(k)_asan)
E2T_BINS := $(foreach k,$(KINDS),$(B)/schedmc_$(k)_tsan)
E2ASAN := -Wno-mismatched-new-delete -O1 -g -fsanitize=address -fno-omit-frame-pointer
E2TSAN := -Wno-mismatched-new-delete -O1 -g -fsanitize=thread -fno-inline -fno-omit-frame-pointer -rdynamic

.PHONY: all setup plain san e2 clean
all: plain san e2
e2: $(E2A_BINS) $(E2T_BINS)

# the scheduler is compiled without any instrumentation (see src/vsched.c)
$(B)/sched.o: src/vsched.c src/vsched.h
	@mkdir -p $(B)
	gcc -O2 -g -fPIC -Wall -c src/vsched.c -o $@

$(B)/schedmc_%_asan: src/schedmc.cpp $(B)/sched.o $(SRC_HDRS) $(REPO_HDRS) $(STAMP)
	$(CXX) $(COMMON) $(E2ASAN) -DVF_CK=$(IDX_$*) src/schedmc.cpp $(B)/sched.o -ldl -o $@

$(B)/schedmc_%_tsan: src/schedmc.cpp $(B)/sched.o $(SRC_HDRS) $(REPO_HDRS) $(STAMP)
	$(CXX) $(COMMON) $(E2TSAN) -DVF_CK=$(IDX_$*) src/schedmc.cpp $(B)/sched.o -ldl -o $@

setup: all
plain: $(PLAIN_BINS)
san: $(SAN_BINS)

$(B)/seqmc_%_plain: src/seqmc.cpp $(SRC_HDRS) $(REPO_HDRS) $(STAMP)
	@mkdir -p $(B)
	$(CXX) $(COMMON) $(PLAIN) -DVF_CK=$(IDX_$*) src/seqmc.cpp -o $@

$(B)/seqmc_%_san: src/seqmc.cpp $(SRC_HDRS) $(REPO_HDRS) $(STAMP)
	@mkdir -p $(B)
	$(CXX) $(COMMON) $(SAN) -DVF_CK=$(IDX_$*) src/seqmc.cpp -o $@

clean:
	rm -rf $(B)
