# Builds the verification engines from /repo's current working tree.
REPO ?= /repo
B := build
CXX := g++
COMMON := -std=c++17 -I$(REPO)/inc -Isrc -fno-access-control -DCAPPUCCINO_VERIF_HOOKS -pthread -Wall -Wno-unused-function
PLAIN := -O2
SAN := -O1 -g -fsanitize=address,undefined -fno-sanitize-recover=undefined -fno-omit-frame-pointer -D_GLIBCXX_DEBUG -D_GLIBCXX_ASSERTIONS
KINDS := lru mru fifo lfu lfuda rr tlru utlru ut_map ut_set
IDX_lru := 0
IDX_mru := 1
IDX_fifo := 2
IDX_lfu := 3
IDX_lfuda := 4
IDX_rr := 5
IDX_tlru := 6
IDX_utlru := 7
IDX_ut_map := 8
IDX_ut_set := 9
REPO_HDRS := $(wildcard $(REPO)/inc/cappuccino/*.hpp)
SRC_HDRS := $(wildcard src/*.hpp src/*.inc)

PLAIN_BINS := $(foreach k,$(KINDS),$(B)/seqmc_$(k)_plain)
SAN_BINS := $(foreach k,$(KINDS),$(B)/seqmc_$(k)_san)

.PHONY: all setup plain san clean
all: plain san
setup: all
plain: $(PLAIN_BINS)
san: $(SAN_BINS)

$(B)/seqmc_%_plain: src/seqmc.cpp $(SRC_HDRS) $(REPO_HDRS)
	@mkdir -p $(B)
	$(CXX) $(COMMON) $(PLAIN) -DVF_CK=$(IDX_$*) src/seqmc.cpp -o $@

$(B)/seqmc_%_san: src/seqmc.cpp $(SRC_HDRS) $(REPO_HDRS)
	@mkdir -p $(B)
	$(CXX) $(COMMON) $(SAN) -DVF_CK=$(IDX_$*) src/seqmc.cpp -o $@

clean:
	rm -rf $(B)
