#!/usr/bin/env python3
"""Regenerates the seeded-change table in DESIGN.md (between the CATALOGUE markers) from seeded/*/meta.json."""
import glob, json, os, re
V = os.path.dirname(os.path.dirname(os.path.abspath(__file__)))
rows = []
for d in sorted(glob.glob(os.path.join(V, "seeded", "*"))):
    mp = os.path.join(d, "meta.json")
    if not os.path.exists(mp):
        continue
    m = json.load(open(mp)); v = m.get("validation", {})
    ch = v.get("checks", {})
    det = sorted(p for p, r in ch.items() if r["exit"] == 1)
    silent = sorted(p for p, r in ch.items() if r["exit"] == 0)
    err = sorted(p for p, r in ch.items() if r["exit"] not in (0, 1))
    note = m.get("note", "")
    caught = ", ".join(det) if det else ("- (neutralised by a fix)" if "NEUTRAL" in note else ("- (see notes)"))
    ok = "yes" if (v.get("repo_tests_pass") and v.get("demo_clean_exit", 0) == 0 and v.get("demo_changed_exit", 1) != 0) else ("n/a" if "NEUTRAL" in note else "see meta")
    rows.append("| %s | %s | %s | %s | %s | %s |" % (m["id"], m["what"].replace("|", "/"), m["needs"].replace("|", "/"), ok, caught,
                                                 (", ".join(silent) if len(silent) <= 6 else "%d others" % len(silent)) + ((" ; harness error: " + ", ".join(err)) if err else "")))
tab = "| Seed | Change (one line) | Needs | Confirmed (tests pass, demo flips) | Caught by | Also run, silent |\n|---|---|---|---|---|---|\n" + "\n".join(rows) + "\n"
p = os.path.join(V, "DESIGN.md"); s = open(p).read()
b, e = "<!-- CATALOGUE BEGIN -->", "<!-- CATALOGUE END -->"
if b in s:
    s = s[:s.index(b) + len(b)] + "\n" + tab + s[s.index(e):]
    open(p, "w").write(s)
print(tab[:500]); print(len(rows), "rows")
