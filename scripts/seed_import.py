#!/usr/bin/env python3
"""Import a sub-agent's deliverable (A.diff/B.diff + demos + notes) as seeded/<id>/ (patch.diff, demo.cpp, notes.md, meta.json).
usage: scripts/seed_import.py <out dir> <A|B|C> <seed id> <property|-> "<what>" "<needs>" ["<source>"]"""
import json, os, shutil, sys
out, which, sid, prop, what, needs = sys.argv[1:7]
source = sys.argv[7] if len(sys.argv) > 7 else "independent sub-agent, fourth round (asked for breakages in places a harness is likely to overlook)"
V = os.path.dirname(os.path.dirname(os.path.abspath(__file__)))
base = "seeded" if prop != "-" else "refactorings"
d = os.path.join(V, base, sid)
os.makedirs(d, exist_ok=True)
shutil.copy(os.path.join(out, which + ".diff"), os.path.join(d, "patch.diff"))
demo = os.path.join(out, "demo%s.cpp" % which)
if os.path.exists(demo):
    shutil.copy(demo, os.path.join(d, "demo.cpp"))
if os.path.exists(os.path.join(out, "notes.md")):
    shutil.copy(os.path.join(out, "notes.md"), os.path.join(d, "notes.md"))
meta = {"id": sid, "property": None if prop == "-" else prop, "what": what, "needs": needs, "source": source, "demo_flags": "-std=c++17 -O1 -pthread"}
if prop == "-":
    meta["kind"] = what
json.dump(meta, open(os.path.join(d, "meta.json"), "w"), indent=1)
print("imported", d)
