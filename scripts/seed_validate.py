#!/usr/bin/env python3
"""Validate one seeded change and run checks against it, in a scratch worktree (never in /repo).

usage: scripts/seed_validate.py <seed dir> [--props C01,C02,...|all] [--tier quick] [--keep]

<seed dir> holds patch.diff, demo.cpp (optional) and meta.json.  Steps:
  1. scratch worktree of /repo HEAD under /tmp/sv/<name>
  2. demo on the unchanged tree must exit 0
  3. apply patch.diff; the repository's own test suite must still build and pass
  4. demo with the change must exit non-zero
  5. run the requested checks with VERIF_REPO pointing at the scratch tree (build/evidence/replays redirected),
     restricted to the containers the patch touches; record which report VIOLATION
The result is merged into meta.json ("validation": {...}).  The worktree is removed afterwards.
"""
import json, os, re, shutil, subprocess, sys, time

VERIF = os.path.dirname(os.path.dirname(os.path.abspath(__file__)))
ALLP = ["C%02d" % i for i in range(1, 21)]


def sh(cmd, cwd=None, env=None, timeout=3600):
    p = subprocess.run(cmd, shell=isinstance(cmd, str), cwd=cwd, env=env, stdout=subprocess.PIPE, stderr=subprocess.STDOUT, timeout=timeout)
    return p.returncode, p.stdout.decode(errors="replace")


def main():
    sd = os.path.abspath(sys.argv[1])
    name = os.path.basename(sd.rstrip("/"))
    props = None
    tier = "quick"
    keep = "--keep" in sys.argv
    for i, a in enumerate(sys.argv):
        if a == "--props":
            props = ALLP if sys.argv[i + 1] == "all" else sys.argv[i + 1].split(",")
        if a == "--tier":
            tier = sys.argv[i + 1]
    meta_p = os.path.join(sd, "meta.json")
    meta = json.load(open(meta_p)) if os.path.exists(meta_p) else {}
    if props is None:
        props = [meta.get("property")] if meta.get("property") else []
    wt = "/tmp/sv/" + name
    os.makedirs("/tmp/sv", exist_ok=True)
    sh("git -C /repo worktree remove --force %s" % wt)
    shutil.rmtree(wt, ignore_errors=True)
    rc, out = sh("git -C /repo worktree add --detach %s HEAD" % wt)
    if rc:
        print(out)
        return 2
    val = {"repo_head": sh("git -C /repo rev-parse --short HEAD")[1].strip(), "when": time.strftime("%Y-%m-%d %H:%M:%S")}
    try:
        demo = os.path.join(sd, "demo.cpp")
        flags = meta.get("demo_flags", "-std=c++17 -O1 -pthread")
        if os.path.exists(demo):
            rc, out = sh("g++ %s -I%s/inc %s -o %s/_demo_clean && timeout 300 %s/_demo_clean" % (flags, wt, demo, wt, wt))
            val["demo_clean_exit"] = rc
            val["demo_clean_tail"] = out[-300:]
        patch = os.path.join(sd, "patch.diff")
        rc, out = sh("git apply %s" % patch, cwd=wt)
        if rc:
            rc, out = sh("git apply --3way %s" % patch, cwd=wt)
        if rc:
            rc, out = sh("patch -p1 --fuzz=3 < %s" % patch, cwd=wt)
        val["patch_applies"] = rc == 0
        if rc:
            val["patch_error"] = out[-500:]
            print("PATCH DOES NOT APPLY", out[-500:])
            return 1
        touched = sorted(set(re.findall(r"^\+\+\+ b/inc/cappuccino/(\w+?)(?:_cache)?\.hpp", open(patch).read(), re.M)))
        val["containers_touched"] = touched
        rc, out = sh("cmake -G Ninja -S %s -B %s/_build >/dev/null && cmake --build %s/_build 2>&1 | tail -3 && ctest --test-dir %s/_build -j8 --timeout 900 2>&1 | tail -5" % (wt, wt, wt, wt))
        val["repo_tests_pass"] = (rc == 0 and "100% tests passed" in out)
        val["repo_tests_tail"] = out[-300:]
        rc2, out2 = sh("%s/_build/test/libcappuccino_tests 2>&1 | tail -2" % wt)
        val["repo_tests_summary"] = out2.strip()[-200:]
        if os.path.exists(demo):
            rc, out = sh("g++ %s -I%s/inc %s -o %s/_demo_mut && timeout 300 %s/_demo_mut" % (flags, wt, demo, wt, wt))
            val["demo_changed_exit"] = rc
            val["demo_changed_tail"] = out[-300:]
        env = dict(os.environ)
        env.update({"VERIF_REPO": wt, "VERIF_BUILD": wt + "/_vbuild", "VERIF_EVIDENCE": wt + "/_evidence", "VERIF_REPLAYS": wt + "/_replays"})
        lib_wide = any(t in ("lock", "allow", "peek") for t in touched)
        if touched and not lib_wide:
            env["VERIF_ONLY_CONTAINERS"] = ",".join(touched)
        res = {}
        for p in props:
            t0 = time.time()
            rc, out = sh([os.path.join(VERIF, "bin", "check"), p, tier], env=env, timeout=7200)
            viol = [l for l in out.splitlines() if l.startswith("VIOLATION")]
            firstdesc = ""
            lines = out.splitlines()
            for i, l in enumerate(lines):
                if l.startswith("VIOLATION"):
                    firstdesc = " | ".join(x.strip() for x in lines[i + 1:i + 3])[:400]
                    break
            res[p] = {"exit": rc, "violations": len(viol), "first": firstdesc, "wall_s": round(time.time() - t0, 1)}
            print("  %s -> exit %d, %d VIOLATION lines %s" % (p, rc, len(viol), firstdesc[:160]))
            if rc not in (0, 1):
                res[p]["tail"] = out[-600:]
                print(out[-600:])
        val["checks"] = {**meta.get("validation", {}).get("checks", {}), **res}
        val["detected_by"] = sorted(p for p, r in val["checks"].items() if r["exit"] == 1)
    finally:
        if not keep:
            sh("git -C /repo worktree remove --force %s" % wt)
            shutil.rmtree(wt, ignore_errors=True)
            sh("git -C /repo worktree prune")
    meta["validation"] = val
    json.dump(meta, open(meta_p, "w"), indent=1)
    ok = val.get("repo_tests_pass") and val.get("demo_clean_exit", 0) == 0 and val.get("demo_changed_exit", 1) != 0
    print("%s: applies=%s tests_pass=%s demo clean/changed exit=%s/%s detected_by=%s" % (
        name, val.get("patch_applies"), val.get("repo_tests_pass"), val.get("demo_clean_exit"), val.get("demo_changed_exit"), val.get("detected_by")))
    return 0 if ok else 1


if __name__ == "__main__":
    sys.exit(main())
