#!/usr/bin/env python3
"""Prints the measured-cost table of DESIGN.md AB.9 from evidence/*.json (the quick tier, as last run) and from a
log of thorough runs (lines 'Cxx thorough: ...' as printed by bin/check), given as arguments."""
import glob, json, os, re, sys
V = os.path.dirname(os.path.dirname(os.path.abspath(__file__)))
th = {}
for p in sys.argv[1:]:
    for line in open(p, errors="replace"):
        m = re.match(r"(C\d\d) thorough: (.*)", line.strip())
        if m:
            th[m.group(1)] = dict(kv.split("=") for kv in m.group(2).split())
out = []
out.append("| Property | quick: jobs | states / programs | transitions / schedules | exhaustive | wall s | thorough: states / programs | transitions / schedules | exhaustive | wall s |")
out.append("|---|---|---|---|---|---|---|---|---|---|")
for f in sorted(glob.glob(os.path.join(V, "evidence", "C*.json"))):
    d = json.load(open(f)); c = d["coverage"]; pid = d["property_id"]
    e2 = "programs" in c
    q = (d.get("jobs", ""), c["programs"] if e2 else c["states"], c["schedules"] if e2 else c["transitions"], c["exhaustive"], d.get("wall_s"))
    t = th.get(pid, {})
    tt = (t.get("programs", t.get("states", "")), t.get("schedules", t.get("transitions", "")), t.get("exhaustive", ""), t.get("wall", ""))
    out.append("| %s | %s | %s | %s | %s | %s | %s | %s | %s | %s |" % ((pid,) + q + tt))
table = "\n".join(out)
dp = os.path.join(V, "DESIGN.md")
d = open(dp).read()
b, e = d.index("<!-- COST BEGIN -->") + len("<!-- COST BEGIN -->"), d.index("<!-- COST END -->")
open(dp, "w").write(d[:b] + "\n" + table + "\n" + d[e:])
print(table)
