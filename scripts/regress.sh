#!/bin/bash
# Replays the shortest witnesses of the defects that were found on the pinned tree and fixed
# (regress/*-pinned.replay).  On the repaired tree every one must print "RESULT: no deviation".
# With --pinned the same witnesses are replayed against a scratch worktree of the pinned commit
# (b3df11a, removed afterwards): there every one must reproduce (a deviation, or - rr's slot
# bookkeeping defect corrupts memory - a fatal signal).
cd "$(dirname "$0")/.."
rc=0
if [ "$1" = "--pinned" ]; then
    wt=/tmp/regress_pinned.$$
    git -C /repo worktree add --detach $wt b3df11a -q || exit 2
    for f in regress/*.replay; do
        out=$(VERIF_REPO=$wt VERIF_BUILD=$wt/_vb bin/replay "$f" 2>&1 | tail -1 | cut -c1-120)
        echo "$f (pinned tree): $out"
        case "$out" in *"deviation reproduced"*|CRASH*) ;; *) rc=1;; esac
    done
    git -C /repo worktree remove --force $wt; rm -rf $wt; git -C /repo worktree prune
    exit $rc
fi
for f in regress/*.replay; do
    out=$(bin/replay "$f" 2>&1 | tail -1)
    echo "$f: $out"
    case "$out" in *"no deviation"*) ;; *) rc=1;; esac
done
exit $rc
