#!/bin/bash
# Replays the shortest witnesses of the defects that were found on the pinned tree and fixed
# (regress/*-pinned.replay).  On the repaired tree every one must print "RESULT: no deviation".
cd "$(dirname "$0")/.."
rc=0
for f in regress/*.replay; do
    out=$(bin/replay "$f" 2>&1 | tail -1)
    echo "$f: $out"
    case "$out" in *"no deviation"*) ;; *) rc=1;; esac
done
exit $rc
