#!/usr/bin/env python3
"""Regenerates /verif/MANIFEST.json (kept as a script so the per-property texts live in one place)."""
import json, os
V = os.path.dirname(os.path.dirname(os.path.abspath(__file__)))
props = [json.loads(l) for l in open(os.path.join(V, "properties.jsonl"))]
E1_NOTE = ("Bounded: capacities 1-3 (thorough 1-4; lru/mru/fifo 1-5, thorough 1-7, and 1-6 in the quick tier of C10/C12/C13), key universe capacity+1..2, range length <= 2 (thorough 3), TTL/tick sets "
           "{0,1,2(,3)} ms, 1 ms clock grid plus a budget of +-1 ns deviations around model deadlines, lfu/lfuda use counts capped "
           "(cmax). Trusted: g++/libstdc++, link-time replacement of steady_clock::now, completeness of the white-box state key "
           "(cross-checked by a merge-free sweep and canon-on-replay), slot-relabelling symmetry of the vector-backed caches, the reference model "
           "(validated by silence on the repaired tree and by the seeded-change catalogue).")
TXT = {
 "C01": "Exhaustive explicit-state search of the real containers (all ten, both thread_safe modes, identity and all-collide hashing, several load factors): from every reachable concrete state every single/range operation is executed on the real code and every value any lookup returns - plus a peek scan of the whole key universe - must carry the write id of that key's latest successful write and the key must not have been undone. Fixpoint per configuration = all histories of that configuration, which is what 'for every finite sequence' needs and unit tests cannot give. Plus a configuration sweep (capacity 1..40/100 x load-factor grid x fill/overflow/erase/refill scripts) and an equal-values configuration.",
 "C02": "Same exhaustive search; after every transition size()/empty()/capacity() are compared with the peek scan and the model's set of expired-not-yet-removed keys (lower and upper bound for tlru/utlru, equality elsewhere); also on the capacity x load-factor sweep.",
 "C03": "Same exhaustive search; the set of live keys lost by each transition (scan before minus scan after at one clock reading) must be empty, or exactly the erased key, or exactly one victim of an insert of a new key into a full cache whose residents are all live.",
 "C04": "Exhaustive search over the four TTL containers with a link-time virtual clock stepped onto, just before and 1 ns around every model deadline; every lookup form and the scan must never return a key whose model deadline (latest successful write + TTL in force) is <= now. Plus concurrent 'clocked' programs (two writers + a clock-tick thread, all schedules): no key served at or after the deadline the implementation recorded for it.",
 "C05": "Same search; every key whose model deadline is still in the future and that was not erased/cleared/legitimately evicted must be returned; deadlines restart on every successful write with the TTL supplied/configured, update_ttl leaves existing deadlines alone.",
 "C06": "Preemption-bounded stateless exploration of real threads on the real container under a serialising scheduler (choice points at every operation invocation and every lock acquisition, found by interposing pthread_mutex_lock; in additional bounded tiers also at heap (de)allocations outside and inside critical sections and right after the last unlock of an operation): every multiset of 2-3 per-thread programs of 1-2 operations over a per-container concurrency alphabet (single and range forms, clean, dynamically_age, update_ttl, clear, observers; keys forced to collide) from a catalogue of pre-states (empty, half, full, full with an expired / age-stale entry). For every complete schedule the recorded results plus public probes (size/scan, then - on re-execution - eviction order and expiry/aging behaviour) must equal those of some sequential order of the same operations, consistent with per-thread and real-time order, run on the same implementation; a range that is not atomic has no witness order; deadlock is a violation.",
 "C07": "The same exploration under ThreadSanitizer: for every container every unordered pair of public member functions (self pairs, observers and update_ttl included) from every catalogued pre-state, all schedules, plus 2x2 / 3x1 programs; the scheduler translation unit is uninstrumented and hands off by raw futex so it adds no happens-before edges and the detector stays sighted; each report is attributed to the program, schedule and the two access stacks.",
 "C08": "The same exhaustive search run under AddressSanitizer + UBSan + libstdc++ debug mode (checked iterators) with an instance-counting, canary-carrying heap-owning value type; after every replay the container is destroyed and the live-instance count must be back to baseline. Explores behind functional deviations too (model re-synchronised from the scan) so latent memory errors after a logic bug are still reached.",
 "C09": "Exhaustive search with all three allow values on every key in every reachable state (absent, live, erased, evicted, expired-unreaped, exactly at expiry), single and range inserts; returned bools/counts and the resulting scan are compared with the model; a per-key 'rejected insert pending' flag attributes later value/deadline drift to the rejected call.",
 "C10": "Exhaustive search of lru/tlru/utlru; model recency sequence (insert, successful update, successful non-peek lookup incl. range forms and duplicates); on every evicting insert with all residents live the lost key must be the model's least recent.",
 "C11": "Exhaustive search of lfu (and lfuda with a frozen clock); find_with_use_count(k, peek) over all residents after every transition must equal the model count, the non-peek form must include its own access, and the victim's model count must be minimal.",
 "C12": "Exhaustive search of fifo incl. erase of head/middle/tail and iterator-pair overloads; victim must be the resident with the smallest model insertion sequence number.",
 "C13": "Exhaustive search of mru; victim must be the resident with the largest model recency.",
 "C14": "Exhaustive search of lfuda with the virtual clock around the tick boundary (age == tick is not aged, one step more is), several tick/ratio settings; at every aging point the model ages exactly the entries idle strictly longer than the tick; dynamically_age()'s return value, all use counts and the victim are compared.",
 "C15": "Exhaustive search of rr where every evicting insert - single, or an insert_range that overflows the cache by one - is branched over 12 equal quantiles of the mt19937 output range (generator reseeded through -fno-access-control); each branch must lose exactly one prior resident, and over the 12 branches every resident must be chosen exactly 12/n times - exhausting the random source instead of sampling it; a second eviction drawn from the advanced generator stream must not hit the first one's position for all 12 seeds. At scale (capacities 48 to 131073, freshly filled): one victim per quantile branch and the 12 victims fall one into each of the 12 equal blocks of positions.",
 "C16": "Exhaustive search of tlru/utlru incl. update_ttl shortening/lengthening; an insert of a new key into a full cache that holds at least one expired resident (size()==capacity() and fewer live keys than capacity) must lose no live key.",
 "C17": "Exhaustive search of the four TTL containers; after clean_expired_values() size() must equal the number of live keys, no live key may be lost, the return value must equal the drop of size(); ut_map/ut_set additionally size()==live right after every call and erase of an expired key must fail. Plus the concurrent clocked programs: clean must not leave an entry resident past its recorded deadline.",
 "C18": "Product (twin instance) search: from every reachable state and every range call, A = state + range call, B = state + the same elements as single calls at the frozen clock; counts / per-element results must agree and A, B are then explored as a pair over the whole alphabet with all public outputs compared until their concrete states coincide (fixpoint) - every continuation, not a sampled one.",
 "C19": "Product search: from every reachable state and every call that turned out to be a peek lookup, a missing lookup, a rejected insert or an erase of an absent key, A = state + call, B = state; the pair is explored to fixpoint with all outputs compared (TTL containers: size()/clean count not compared, update-only insert / erase addressed to a key already expired at the root may differ).",
 "C20": "Product search for utlru/ut_map: from every reachable state A = state + clear(), B = a newly constructed container with the same capacity and the TTL currently configured; size()==0, empty scan, then pair exploration to fixpoint.",
}
E2_NOTE = ("Bounded: <= 3 threads x <= 2 operations, capacity 2, 3 colliding keys, preemption bound 2 for the longer programs (all schedules for 2x1 and 3x1), long-range programs (one call over 130 or 4200 entries - ranges, clean, age, clear - against one or two single calls; the 4200 size in C07 only in the thorough tier), "
           "clock constant while calls overlap. Trusted: glibc symbol interposition of pthread_mutex_lock/unlock, the serialising scheduler (src/vsched.c), sanitizer runtimes; "
           "schedule points at synchronisation operations only (complete for data-race-free code, which C07 establishes); sequential consistency.")
checks = []
for p in props:
    pid = p["id"]
    if pid not in TXT:
        continue
    if pid in ("C06", "C07"):
        checks.append({
            "property_id": pid, "quick_cmd": "bin/check %s quick" % pid, "thorough_cmd": "bin/check %s thorough" % pid,
            "evidence_file": "evidence/%s.json" % pid, "replay_cmd_template": "bin/replay {path}", "engine": "schedmc",
            "level_claimed": {"category": "model_checking", "text": TXT[pid], "design_ref": "DESIGN.md section 4 and section 5 (%s)" % pid},
            "level_note": E2_NOTE,
            "technique": "stateless preemption-bounded model checking of real threads under a controlled scheduler" + (" + happens-before race detection per execution" if pid == "C07" else " + brute-force linearizability check per schedule"),
        })
        continue
    checks.append({
        "property_id": pid,
        "quick_cmd": "bin/check %s quick" % pid,
        "thorough_cmd": "bin/check %s thorough" % pid,
        "evidence_file": "evidence/%s.json" % pid,
        "replay_cmd_template": "bin/replay {path}",
        "engine": "seqmc",
        "level_claimed": {"category": "model_checking", "text": TXT[pid], "design_ref": "DESIGN.md section 5 (%s), section 3" % pid},
        "level_note": E1_NOTE,
        "technique": ("explicit-state model checking of the implementation (BFS to fixpoint over replayed histories, reference-model oracle)"
                      if pid not in ("C18", "C19", "C20") else
                      "explicit-state product (bisimulation) search over twin instances of the implementation"),
    })
na = [{"property_id": p["id"], "reason": "E2 (preemption-bounded scheduler over real threads) not built yet - in progress, see DESIGN.md section 4"}
      for p in props if p["id"] not in TXT]
m = {
 "version": 1,
 "setup_cmd": "make -C /verif -j16 setup",
 "hooks": {"guard": "CAPPUCCINO_VERIF_HOOKS",
           "enable": "no source hooks exist: the clock (link-time steady_clock::now), the rr generator (-fno-access-control), and locks (symbol interposition) are owned from the harness; -DCAPPUCCINO_VERIF_HOOKS is passed to every harness build anyway",
           "baseline_off_cmd": "cmake -G Ninja -S /repo -B /repo/_build && cmake --build /repo/_build && ctest --test-dir /repo/_build -j8 --timeout 900",
           "source_commits": [], "add_only": True},
 "engines": [{"name": "schedmc", "path": "src/schedmc.cpp + src/vsched.c", "serves_properties": ["C06", "C07"], "kind_free_text": "stateless DFS over thread schedules of the real container with a serialising futex scheduler and interposed lock operations; iterative preemption bounding"}, {"name": "seqmc", "path": "src/seqmc.cpp", "serves_properties": sorted(k for k in TXT if k not in ("C06", "C07")), "kind_free_text": "explicit-state search (BFS over operation histories replayed on fresh real containers, state = canonical white-box dump + reference-model state), product search for differential properties"}],
 "checks": checks,
 "not_applicable": na,
 "notes": "fix: commits in /repo: b691f9b (rr), ac6da05 (lfuda), 3e216ef (utlru), a466aac (ut_map/ut_set), 0fe9fa3 (observers/update_ttl locked), 105edd7 (pre-lock reads); see known_findings.txt and DESIGN.md",
}
json.dump(m, open(os.path.join(V, "MANIFEST.json"), "w"), indent=1)
print("checks:", len(checks), "not_applicable:", len(na))
